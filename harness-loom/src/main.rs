//! lsv-loom — C04: proptest-generated concurrent programs x loom-enumerated schedules.
//!
//!   lsv-loom check --tier quick|thorough       parent: generates programs, one child per exploration
//!   lsv-loom explore <program.json> <bound>    child: loom::model over one program
//!   lsv-loom replay <file>                     re-explores a saved program

mod program;

use program::*;
use proptest::test_runner::{Config, RngAlgorithm, TestCaseError, TestError, TestRng, TestRunner};
use serde_json::{Value, json};
use std::collections::{BTreeMap, HashSet};
use std::process::{Command, ExitCode, Stdio};
use std::sync::Mutex;
use std::sync::atomic::{AtomicBool, AtomicU64, Ordering};

// ------------------------------------------------------------------------------------------------
// child side: hooks mapping buffer accesses onto loom cells

mod hooks {
    use lean_string::verif_hooks::{Hooks, Note};
    use std::alloc::{GlobalAlloc, Layout, System};
    use std::collections::BTreeMap;
    use std::sync::{Arc, Mutex};

    /// loom runs one thread at a time; the cell only carries loom's causality tracking
    pub struct SyncCell(loom::cell::UnsafeCell<()>);
    unsafe impl Send for SyncCell {}
    unsafe impl Sync for SyncCell {}
    impl SyncCell {
        pub fn with(&self, f: impl FnOnce(*const ())) {
            self.0.with(f)
        }
        pub fn with_mut(&self, f: impl FnOnce(*mut ())) {
            self.0.with_mut(f)
        }
    }

    pub struct Block {
        pub size: usize,
        pub align: usize,
        pub cell: Arc<SyncCell>,
        pub freed: bool,
    }

    pub static TABLE: Mutex<BTreeMap<usize, Block>> = Mutex::new(BTreeMap::new());
    pub static VIOLATION: Mutex<Option<String>> = Mutex::new(None);

    fn violation(msg: String) {
        let mut v = VIOLATION.lock().unwrap_or_else(|e| e.into_inner());
        if v.is_none() {
            *v = Some(msg);
        }
    }

    fn find(addr: usize) -> Option<(usize, Arc<SyncCell>, bool, usize)> {
        let t = TABLE.lock().unwrap_or_else(|e| e.into_inner());
        t.range(..=addr).next_back().filter(|(s, b)| addr <= **s + b.size).map(|(s, b)| (*s, b.cell.clone(), b.freed, b.size))
    }

    unsafe fn h_alloc(layout: Layout) -> *mut u8 {
        let p = unsafe { System.alloc(layout) };
        if !p.is_null() {
            unsafe { std::ptr::write_bytes(p, 0xFE, layout.size()) };
            let cell = Arc::new(SyncCell(loom::cell::UnsafeCell::new(())));
            TABLE.lock().unwrap_or_else(|e| e.into_inner()).insert(p as usize, Block { size: layout.size(), align: layout.align(), cell, freed: false });
        }
        p
    }

    unsafe fn h_dealloc(ptr: *mut u8, layout: Layout) {
        let addr = ptr as usize;
        let cell = {
            let mut t = TABLE.lock().unwrap_or_else(|e| e.into_inner());
            match t.get_mut(&addr) {
                Some(b) if !b.freed => {
                    if b.size != layout.size() || b.align != layout.align() {
                        violation(format!("dealloc with size {} align {}, allocated with size {} align {}", layout.size(), layout.align(), b.size, b.align));
                    }
                    b.freed = true;
                    Some(b.cell.clone())
                }
                Some(_) => {
                    violation("double free of a heap buffer".into());
                    None
                }
                None => {
                    violation("free of an unknown pointer".into());
                    None
                }
            }
        };
        if let Some(c) = cell {
            // releasing the buffer is a write: it must be ordered after every other access
            c.with_mut(|_| ());
            unsafe { std::ptr::write_bytes(ptr, 0xDD, layout.size()) };
        }
    }

    unsafe fn h_realloc(ptr: *mut u8, layout: Layout, new_size: usize) -> *mut u8 {
        let new_layout = Layout::from_size_align(new_size, layout.align()).unwrap();
        let p = unsafe { h_alloc(new_layout) };
        if p.is_null() {
            return p;
        }
        match find(ptr as usize) {
            Some((start, cell, false, size)) if start == ptr as usize => {
                cell.with_mut(|_| ());
                unsafe { std::ptr::copy_nonoverlapping(ptr, p, size.min(new_size)) };
            }
            _ => violation("realloc of a released or unknown pointer".into()),
        }
        unsafe { h_dealloc(ptr, layout) };
        p
    }

    fn h_note(kind: Note, ptr: *const u8, len: usize) {
        match find(ptr as usize) {
            Some((start, cell, freed, size)) => {
                if freed {
                    violation(format!("{kind:?} access to a released buffer"));
                    return;
                }
                if ptr as usize + len > start + size {
                    violation(format!("{kind:?} access of {len} bytes beyond the end of its buffer"));
                    return;
                }
                match kind {
                    Note::WriteWindow => cell.with_mut(|_| ()),
                    _ => cell.with(|_| ()),
                }
            }
            None => violation(format!("{kind:?} access to memory that is not a live buffer")),
        }
    }

    pub static HOOKS: Hooks = Hooks { alloc: h_alloc, realloc: h_realloc, dealloc: h_dealloc, note: h_note };

    /// start of an execution: release what the previous one left in quarantine
    pub fn reset() {
        let mut t = TABLE.lock().unwrap_or_else(|e| e.into_inner());
        for (addr, b) in std::mem::take(&mut *t) {
            unsafe { System.dealloc(addr as *mut u8, Layout::from_size_align(b.size, b.align).unwrap()) };
        }
        *VIOLATION.lock().unwrap_or_else(|e| e.into_inner()) = None;
    }

    pub fn live_blocks() -> usize {
        TABLE.lock().unwrap_or_else(|e| e.into_inner()).values().filter(|b| !b.freed).count()
    }

    pub fn take_violation() -> Option<String> {
        VIOLATION.lock().unwrap_or_else(|e| e.into_inner()).clone()
    }
}

use lean_string::LeanString;

fn check_violation(ctx: &str) {
    if let Some(v) = hooks::take_violation() {
        panic!("LSV-VIOLATION C04.buffer_discipline: {v} ({ctx})");
    }
}

fn exec_thread(
    name: usize,
    mut hs: Vec<Option<LeanString>>,
    ops: &[TOp],
    exp: &[Vec<Option<String>>],
    shared: Option<&LeanString>,
    shared_text: &str,
) -> Vec<Option<LeanString>> {
    let n = hs.len();
    let ix = |h: u8| h as usize % n;
    for (k, op) in ops.iter().enumerate() {
        match op {
            TOp::Clone { src, dst } => {
                if let Some(s) = hs[ix(*src)].as_ref() {
                    let c = s.clone();
                    hs[ix(*dst)] = Some(c);
                }
            }
            TOp::CloneShared { dst } => hs[ix(*dst)] = Some(shared.expect("shared").clone()),
            TOp::CloneFrom { src, dst } => {
                let (a, b) = (ix(*src), ix(*dst));
                if a != b && hs[a].is_some() && hs[b].is_some() {
                    let s = hs[a].clone().unwrap();
                    // clone_from from a temporary clone of the source would hide the path: use split borrows
                    drop(s);
                    let (l, r) = if a < b { hs.split_at_mut(b) } else { hs.split_at_mut(a) };
                    let (src_ref, dst_ref) = if a < b { (l[a].as_ref().unwrap(), r[0].as_mut().unwrap()) } else { (r[0].as_ref().unwrap(), l[b].as_mut().unwrap()) };
                    dst_ref.clone_from(src_ref);
                }
            }
            TOp::CloneFromShared { dst } => {
                if let Some(d) = hs[ix(*dst)].as_mut() {
                    d.clone_from(shared.expect("shared"));
                }
            }
            TOp::Drop { h } => hs[ix(*h)] = None,
            TOp::Read { h } => {
                if let Some(s) = hs[ix(*h)].as_ref() {
                    std::hint::black_box(s.as_str().len());
                }
            }
            TOp::ReadShared => {
                let s = shared.expect("shared");
                if s.as_str() != shared_text {
                    panic!("LSV-VIOLATION C04.sequential_view: thread {name} op {k}: the string shared by reference reads {:?}, expected {:?}", s.as_str(), shared_text);
                }
            }
            TOp::Push { h, ch } => {
                if let Some(s) = hs[ix(*h)].as_mut() {
                    s.push(*ch)
                }
            }
            TOp::PushStr { h, text } => {
                if let Some(s) = hs[ix(*h)].as_mut() {
                    s.push_str(text)
                }
            }
            TOp::Insert { h, at, ch } => {
                if let Some(s) = hs[ix(*h)].as_mut() {
                    let i = boundary_at(s.as_str(), *at);
                    s.insert(i, *ch)
                }
            }
            TOp::Remove { h, at } => {
                if let Some(s) = hs[ix(*h)].as_mut() {
                    let i = boundary_at(s.as_str(), *at);
                    if i < s.len() {
                        s.remove(i);
                    }
                }
            }
            TOp::Retain { h, mask } => {
                if let Some(s) = hs[ix(*h)].as_mut() {
                    let mut j = 0u32;
                    s.retain(|_| {
                        let keep = (mask >> (j % 64)) & 1 == 1;
                        j += 1;
                        keep
                    })
                }
            }
            TOp::Truncate { h, at } => {
                if let Some(s) = hs[ix(*h)].as_mut() {
                    let i = boundary_at(s.as_str(), *at);
                    s.truncate(i)
                }
            }
            TOp::Pop { h } => {
                if let Some(s) = hs[ix(*h)].as_mut() {
                    s.pop();
                }
            }
            TOp::Clear { h } => {
                if let Some(s) = hs[ix(*h)].as_mut() {
                    s.clear()
                }
            }
            TOp::Reserve { h, n } => {
                if let Some(s) = hs[ix(*h)].as_mut() {
                    s.reserve(*n as usize)
                }
            }
            TOp::ShrinkTo { h, n } => {
                if let Some(s) = hs[ix(*h)].as_mut() {
                    s.shrink_to(*n as usize)
                }
            }
        }
        check_violation(&format!("thread {name} after op {k} {}", op.name()));
        // sequential view: every handle of this thread reads what its own history produces
        for (j, want) in exp[k].iter().enumerate() {
            match (hs[j].as_ref(), want) {
                (Some(s), Some(w)) => {
                    let bytes = s.as_bytes();
                    if bytes != w.as_bytes() {
                        panic!(
                            "LSV-VIOLATION C04.sequential_view: thread {name} after op {k} ({}): handle {j} reads {:?}, its own operations produce {:?}",
                            op.name(),
                            String::from_utf8_lossy(bytes),
                            w
                        );
                    }
                }
                (None, None) => {}
                _ => panic!("LSV-INFRA handle liveness mismatch in thread {name} op {k}"),
            }
        }
        check_violation(&format!("thread {name} reading back after op {k} {}", op.name()));
    }
    hs
}

fn initial_handles(base: &LeanString, base_text: &str, spec: &ThreadSpec) -> Vec<Option<LeanString>> {
    let mut hs: Vec<Option<LeanString>> = spec
        .init
        .iter()
        .map(|i| {
            i.map(|k| {
                let mut c = base.clone();
                c.truncate(boundary_at(base_text, k));
                c
            })
        })
        .collect();
    hs.resize_with(HANDLES, || None);
    hs
}

static EXECUTIONS: AtomicU64 = AtomicU64::new(0);

fn run_program(p: &Program, exp_main: &[Vec<Option<String>>], exp_threads: &[Vec<Vec<Option<String>>>]) {
    hooks::reset();
    EXECUTIONS.fetch_add(1, Ordering::Relaxed);
    let mut base = LeanString::from(p.base_text.as_str());
    if p.spare > 0 {
        base.reserve(p.spare as usize);
    }
    let shared: Option<loom::sync::Arc<LeanString>> = if p.shared_ref { Some(loom::sync::Arc::new(base.clone())) } else { None };
    let main_hs = initial_handles(&base, &p.base_text, &p.main);
    let mut joins = Vec::new();
    for (t, spec) in p.threads.iter().enumerate() {
        let hs = initial_handles(&base, &p.base_text, spec);
        let ops = spec.ops.clone();
        let exp = exp_threads[t].clone();
        let sh = shared.clone();
        let text = p.base_text.clone();
        joins.push(loom::thread::spawn(move || {
            let left = exec_thread(t + 1, hs, &ops, &exp, sh.as_deref(), &text);
            drop(left);
            drop(sh);
        }));
    }
    // the base handle itself is dropped by the main thread while the others run
    drop(base);
    let left = exec_thread(0, main_hs, &p.main.ops, exp_main, shared.as_deref(), &p.base_text);
    drop(left);
    drop(shared);
    for j in joins {
        j.join().unwrap();
    }
    check_violation("at the end of the execution");
    let live = hooks::live_blocks();
    if live != 0 {
        panic!("LSV-VIOLATION C04.released_exactly_once: {live} heap buffer(s) still allocated after every handle was dropped and every thread joined");
    }
}

fn explore(path: &str, bound: usize, max_perms: usize) -> ExitCode {
    let Ok(bytes) = std::fs::read(path) else { return ExitCode::from(2) };
    let Ok(doc) = serde_json::from_slice::<Value>(&bytes) else { return ExitCode::from(2) };
    let case = doc.get("case").cloned().unwrap_or(doc);
    let Ok(p) = serde_json::from_value::<Program>(case.get("program").cloned().unwrap_or(case)) else { return ExitCode::from(2) };
    lean_string::verif_hooks::install(&hooks::HOOKS);
    let exp_main = expected(&p, &p.main);
    let exp_threads: Vec<_> = p.threads.iter().map(|t| expected(&p, t)).collect();
    let msg: std::sync::Arc<Mutex<Option<String>>> = std::sync::Arc::new(Mutex::new(None));
    let m2 = msg.clone();
    std::panic::set_hook(Box::new(move |info| {
        let mut g = m2.lock().unwrap_or_else(|e| e.into_inner());
        if g.is_none() {
            let s = if let Some(s) = info.payload().downcast_ref::<String>() {
                s.clone()
            } else if let Some(s) = info.payload().downcast_ref::<&str>() {
                s.to_string()
            } else {
                "panic".to_string()
            };
            *g = Some(s);
        }
    }));
    let r = std::panic::catch_unwind(std::panic::AssertUnwindSafe(|| {
        let mut b = loom::model::Builder::new();
        b.preemption_bound = Some(bound);
        b.max_branches = 200_000;
        // a few generated programs have millions of schedules: exploration is cut (deterministically) after
        // this many executions; such a program counts as partly explored, never as a violation
        b.max_permutations = Some(max_perms);
        b.check(move || run_program(&p, &exp_main, &exp_threads));
    }));
    let execs = EXECUTIONS.load(Ordering::Relaxed);
    match r {
        Ok(()) => {
            println!("{}", json!({"ok": true, "executions": execs}));
            ExitCode::SUCCESS
        }
        Err(_) => {
            let m = msg.lock().unwrap_or_else(|e| e.into_inner()).clone().unwrap_or_default();
            if m.contains("maximum number of branches") || m.contains("LSV-INFRA") {
                println!("{}", json!({"ok": true, "skipped": true, "executions": execs, "why": m}));
                return ExitCode::SUCCESS;
            }
            println!("{}", json!({"ok": false, "executions": execs, "detail": m}));
            ExitCode::from(1)
        }
    }
}

// ------------------------------------------------------------------------------------------------
// parent side

const SHARDS: usize = 16;

fn verif_dir() -> std::path::PathBuf {
    std::env::var_os("VERIF_DIR").map(Into::into).unwrap_or_else(|| "/verif".into())
}

struct ChildResult {
    ok: bool,
    skipped: bool,
    executions: u64,
    detail: String,
}

fn run_child(exe: &std::path::Path, file: &std::path::Path, bound: usize) -> ChildResult {
    let max_perms = if bound >= 3 { 60_000 } else { 20_000 };
    let out = Command::new(exe).arg("explore").arg(file).arg(bound.to_string()).arg(max_perms.to_string()).stdout(Stdio::piped()).stderr(Stdio::piped()).output();
    match out {
        Err(e) => ChildResult { ok: true, skipped: true, executions: 0, detail: format!("spawn failed: {e}") },
        Ok(o) => {
            let line = String::from_utf8_lossy(&o.stdout);
            let v: Option<Value> = line.lines().rev().find_map(|l| serde_json::from_str(l).ok());
            match (o.status.code(), v) {
                (Some(0), Some(v)) => ChildResult { ok: true, skipped: v.get("skipped").is_some(), executions: v["executions"].as_u64().unwrap_or(0), detail: String::new() },
                (Some(1), Some(v)) => ChildResult { ok: false, skipped: false, executions: v["executions"].as_u64().unwrap_or(0), detail: v["detail"].as_str().unwrap_or("").to_string() },
                (code, _) => {
                    let err = String::from_utf8_lossy(&o.stderr);
                    let tail: String = err.lines().rev().take(6).collect::<Vec<_>>().into_iter().rev().collect::<Vec<_>>().join(" | ");
                    if code == Some(2) {
                        ChildResult { ok: true, skipped: true, executions: 0, detail: "child could not read the program".into() }
                    } else {
                        ChildResult {
                            ok: false,
                            skipped: false,
                            executions: 0,
                            detail: format!("C04.abort: the exploration died ({:?}): a panic while unwinding / crash under some schedule; last output: {tail}", o.status),
                        }
                    }
                }
            }
        }
    }
}

fn classes_of(p: &Program) -> Vec<String> {
    let mut v = Vec::new();
    let mut names: Vec<HashSet<&'static str>> = Vec::new();
    for t in std::iter::once(&p.main).chain(p.threads.iter()) {
        names.push(t.ops.iter().map(|o| o.name()).collect());
    }
    for i in 0..names.len() {
        for j in i + 1..names.len() {
            for a in &names[i] {
                for b in &names[j] {
                    let (x, y) = if a <= b { (a, b) } else { (b, a) };
                    v.push(format!("pair.{x}||{y}"));
                }
            }
        }
    }
    v.sort();
    v.dedup();
    v.push(format!("threads.{}", p.threads.len() + 1));
    if p.shared_ref {
        v.push("shared_by_reference".into());
    }
    v
}

fn nontrivial(p: &Program) -> bool {
    let holders = std::iter::once(&p.main).chain(p.threads.iter()).filter(|t| t.init.iter().any(|i| i.is_some())).count() + p.shared_ref as usize;
    let mutates = std::iter::once(&p.main).chain(p.threads.iter()).any(|t| t.ops.iter().any(|o| o.mutates()));
    holders >= 2 && mutates
}

fn digest(p: &Program) -> u64 {
    use std::hash::{Hash, Hasher};
    let mut h = std::collections::hash_map::DefaultHasher::new();
    p.hash(&mut h);
    h.finish()
}

fn check(tier: &str, seed: u64) -> ExitCode {
    let t0 = std::time::Instant::now();
    let thorough = tier == "thorough";
    let (cases, max_threads, max_ops, bound) = if thorough { (600u32, 3usize, 5usize, 3usize) } else { (400u32, 2, 4, 2) };
    let exe = std::env::current_exe().unwrap();
    let work = verif_dir().join("work").join("C04");
    let _ = std::fs::create_dir_all(&work);
    let stop = AtomicBool::new(false);
    struct Tot {
        programs: u64,
        skipped: u64,
        truncated: u64,
        executions: u64,
        distinct: HashSet<u64>,
        classes: BTreeMap<String, u64>,
        samples: Vec<Value>,
        violation: Option<(Program, String)>,
    }
    let tot = Mutex::new(Tot { programs: 0, skipped: 0, truncated: 0, executions: 0, distinct: HashSet::new(), classes: BTreeMap::new(), samples: vec![], violation: None });
    std::thread::scope(|sc| {
        for shard in 0..SHARDS {
            let (stop, tot, exe, work) = (&stop, &tot, &exe, &work);
            sc.spawn(move || {
                let mut sb = [0u8; 32];
                sb[..8].copy_from_slice(&seed.to_le_bytes());
                sb[8] = shard as u8;
                sb[9] = 0xC4;
                let rng = TestRng::from_seed(RngAlgorithm::ChaCha, &sb);
                let config = Config { cases, failure_persistence: None, max_shrink_iters: 400, ..Config::default() };
                let mut runner = TestRunner::new_with_rng(config, rng);
                let file = work.join(format!("prog-{shard}.json"));
                let failed = std::cell::Cell::new(false);
                let last: std::cell::RefCell<Option<String>> = std::cell::RefCell::new(None);
                let strat = program_strategy(max_threads, max_ops);
                let result = runner.run(&strat, |p| {
                    if stop.load(Ordering::Relaxed) && !failed.get() {
                        return Ok(());
                    }
                    let _ = std::fs::write(&file, serde_json::to_vec(&json!({"program": p})).unwrap());
                    let r = run_child(exe, &file, bound);
                    if !failed.get() {
                        let mut t = tot.lock().unwrap();
                        t.programs += 1;
                        t.executions += r.executions;
                        if r.executions >= if bound >= 3 { 60_000 } else { 20_000 } {
                            t.truncated += 1;
                        }
                        if r.skipped {
                            t.skipped += 1;
                        } else if r.ok && nontrivial(&p) {
                            t.distinct.insert(digest(&p));
                            for c in classes_of(&p) {
                                *t.classes.entry(c).or_insert(0) += 1;
                            }
                            if t.samples.len() < 4 && p.threads.len() >= 2 {
                                t.samples.push(json!({"kind": "program", "program": p, "executions": r.executions}));
                            }
                        }
                    }
                    if r.ok {
                        Ok(())
                    } else {
                        failed.set(true);
                        *last.borrow_mut() = Some(r.detail.clone());
                        Err(TestCaseError::fail(r.detail))
                    }
                });
                if let Err(TestError::Fail(_, minimal)) = result {
                    stop.store(true, Ordering::Relaxed);
                    let _ = std::fs::write(&file, serde_json::to_vec(&json!({"program": minimal})).unwrap());
                    let r = run_child(exe, &file, bound);
                    let detail = if r.ok { last.borrow().clone().unwrap_or_default() } else { r.detail };
                    let mut t = tot.lock().unwrap();
                    if t.violation.is_none() {
                        t.violation = Some((minimal, detail));
                    }
                }
            });
        }
    });
    let t = tot.into_inner().unwrap();
    let wall = t0.elapsed().as_secs_f64();
    let dir = verif_dir();
    let _ = std::fs::create_dir_all(dir.join("evidence"));
    let mut replay = None;
    if let Some((p, detail)) = &t.violation {
        let _ = std::fs::create_dir_all(dir.join("replays"));
        let path = dir.join("replays").join(format!("C04-{:016x}.json", digest(p)));
        let clause = detail.split_whitespace().find(|w| w.starts_with("C04.")).unwrap_or("C04.loom").trim_end_matches(':').to_string();
        let doc = json!({"property": "C04", "engine": "lsv-loom", "seed": seed, "tier": tier, "preemption_bound": bound,
            "case": {"kind": "program", "program": p}, "failure": {"oracle": clause, "step": 0, "detail": detail}});
        let _ = std::fs::write(&path, serde_json::to_vec_pretty(&doc).unwrap());
        replay = Some(path);
    }
    let ev = json!({
        "property_id": "C04", "tier": tier, "seed": seed, "level": "exploration",
        "coverage": {
            "evaluations": t.programs,
            "distinct_nontrivial": t.distinct.len(),
            "rule": format!("proptest-generated concurrent programs: one heap buffer (4 base texts, optional spare capacity), main thread + 1..={max_threads} spawned threads, each holding up to {HANDLES} handles (clones, some pre-truncated) and optionally a reference to a LeanString shared through an Arc, 1..={max_ops} operations per thread from clone/clone_from/drop/read/push/push_str/insert/remove/retain/truncate/pop/clear/reserve/shrink_to; every program is explored by loom (preemption bound {bound}) over all schedules and the visibility orders loom models; buffer accesses are mapped onto loom cells through the verif-hooks; non-trivial = at least two threads hold handles (or the shared reference) to the buffer and at least one mutates, reallocates or drops; distinct programs"),
            "samples": t.samples,
            "programs": t.programs,
            "schedules_explored": t.executions,
            "skipped_too_large": t.skipped,
            "exploration_cut_at_execution_limit": t.truncated,
            "classes": t.classes,
            "excluded_by_known_finding": 0,
        },
        "assumptions": [
            "loom 0.7.2 memory model: schedules up to the preemption bound, Acquire/Release/Relaxed orderings and Acquire fences; no load buffering, SeqCst approximated; at most 4 threads",
            "raw buffer accesses are visible to loom only where the verif-hooks report them (as_bytes, internal copy-out reads, write windows, header reads, realloc, dealloc)",
            "lean_string built with --cfg loom, features loom + verif-hooks"
        ],
        "wall_s": wall,
        "violations": if t.violation.is_some() { 1 } else { 0 },
    });
    let _ = std::fs::write(dir.join("evidence").join("C04.json"), serde_json::to_vec_pretty(&ev).unwrap());
    if let (Some((_, detail)), Some(path)) = (&t.violation, replay) {
        println!("violated: {detail}");
        println!("VIOLATION property=C04 replay={}", path.display());
        return ExitCode::from(1);
    }
    println!("OK property=C04 tier={tier} programs={} schedules_explored={} distinct_nontrivial={} skipped={} wall_s={wall:.1}", t.programs, t.executions, t.distinct.len(), t.skipped);
    ExitCode::SUCCESS
}

fn main() -> ExitCode {
    let args: Vec<String> = std::env::args().collect();
    let seed: u64 = std::env::var("VERIF_SEED").ok().and_then(|s| s.parse().ok()).unwrap_or(0);
    match args.get(1).map(|s| s.as_str()) {
        Some("explore") => explore(&args[2], args.get(3).and_then(|s| s.parse().ok()).unwrap_or(2), args.get(4).and_then(|s| s.parse().ok()).unwrap_or(20_000)),
        Some("check") => {
            let tier = args.iter().position(|a| a == "--tier").and_then(|i| args.get(i + 1)).map(|s| s.as_str()).unwrap_or("quick");
            check(tier, seed)
        }
        Some("replay") => {
            let exe = std::env::current_exe().unwrap();
            let bound = std::fs::read(&args[2]).ok().and_then(|b| serde_json::from_slice::<Value>(&b).ok()).and_then(|v| v["preemption_bound"].as_u64()).unwrap_or(3) as usize;
            let r = run_child(&exe, std::path::Path::new(&args[2]), bound);
            if r.ok {
                println!("OK replay: property C04 holds on this program ({} schedules)", r.executions);
                ExitCode::SUCCESS
            } else {
                println!("{}", r.detail);
                println!("VIOLATION property=C04 replay={}", args[2]);
                ExitCode::from(1)
            }
        }
        _ => {
            eprintln!("usage: lsv-loom check --tier T | explore <file> <bound> | replay <file>");
            ExitCode::from(2)
        }
    }
}
