//! Concurrent programs: IR, proptest generator, sequential expectation.

use proptest::collection::vec;
use proptest::prelude::*;
use proptest::sample::select;
use serde::{Deserialize, Serialize};

pub const HANDLES: usize = 3;

#[derive(Clone, Debug, PartialEq, Eq, Hash, Serialize, Deserialize)]
#[serde(tag = "op", rename_all = "snake_case")]
pub enum TOp {
    /// hs[dst] = hs[src].clone()
    Clone { src: u8, dst: u8 },
    /// hs[dst] = (*shared).clone()  (clone through a reference shared between threads)
    CloneShared { dst: u8 },
    /// hs[dst].clone_from(&hs[src])
    CloneFrom { src: u8, dst: u8 },
    /// hs[dst].clone_from(&*shared)
    CloneFromShared { dst: u8 },
    Drop { h: u8 },
    Read { h: u8 },
    ReadShared,
    Push { h: u8, ch: char },
    PushStr { h: u8, text: String },
    /// insert at the k-th char boundary (scaled)
    Insert { h: u8, at: u16, ch: char },
    Remove { h: u8, at: u16 },
    Retain { h: u8, mask: u64 },
    Truncate { h: u8, at: u16 },
    Pop { h: u8 },
    Clear { h: u8 },
    Reserve { h: u8, n: u16 },
    ShrinkTo { h: u8, n: u16 },
}

impl TOp {
    pub fn name(&self) -> &'static str {
        match self {
            TOp::Clone { .. } => "clone",
            TOp::CloneShared { .. } => "clone_shared",
            TOp::CloneFrom { .. } => "clone_from",
            TOp::CloneFromShared { .. } => "clone_from_shared",
            TOp::Drop { .. } => "drop",
            TOp::Read { .. } => "read",
            TOp::ReadShared => "read_shared",
            TOp::Push { .. } => "push",
            TOp::PushStr { .. } => "push_str",
            TOp::Insert { .. } => "insert",
            TOp::Remove { .. } => "remove",
            TOp::Retain { .. } => "retain",
            TOp::Truncate { .. } => "truncate",
            TOp::Pop { .. } => "pop",
            TOp::Clear { .. } => "clear",
            TOp::Reserve { .. } => "reserve",
            TOp::ShrinkTo { .. } => "shrink_to",
        }
    }
    pub fn mutates(&self) -> bool {
        !matches!(self, TOp::Read { .. } | TOp::ReadShared | TOp::Clone { .. } | TOp::CloneShared { .. })
    }
}

#[derive(Clone, Debug, PartialEq, Eq, Hash, Serialize, Deserialize)]
pub struct ThreadSpec {
    /// initial handles: for each slot, None or Some(truncate_to_boundary) of a clone of the base
    pub init: Vec<Option<u16>>,
    pub ops: Vec<TOp>,
}

#[derive(Clone, Debug, PartialEq, Eq, Hash, Serialize, Deserialize)]
pub struct Program {
    pub base_text: String,
    /// extra capacity reserved in the base before it is shared (0: exact)
    pub spare: u16,
    /// a LeanString shared by reference (loom Arc) between all threads
    pub shared_ref: bool,
    /// main thread's part (runs concurrently with the spawned threads)
    pub main: ThreadSpec,
    pub threads: Vec<ThreadSpec>,
}

pub fn boundaries(s: &str) -> Vec<usize> {
    let mut v: Vec<usize> = s.char_indices().map(|(i, _)| i).collect();
    v.push(s.len());
    v
}

pub fn boundary_at(s: &str, k: u16) -> usize {
    let b = boundaries(s);
    b[(k as usize * b.len()) >> 16]
}

/// Sequential model of one thread: the texts of its handle slots after every op.
pub fn expected(p: &Program, t: &ThreadSpec) -> Vec<Vec<Option<String>>> {
    let mut hs: Vec<Option<String>> = t
        .init
        .iter()
        .map(|i| {
            i.map(|k| {
                let mut s = p.base_text.clone();
                s.truncate(boundary_at(&p.base_text, k));
                s
            })
        })
        .collect();
    hs.resize(HANDLES, None);
    let mut out = Vec::new();
    for op in &t.ops {
        apply_model(&mut hs, op, &p.base_text);
        out.push(hs.clone());
    }
    out
}

pub fn apply_model(hs: &mut [Option<String>], op: &TOp, shared: &str) {
    let n = hs.len();
    let ix = |h: u8| h as usize % n;
    match op {
        TOp::Clone { src, dst } => {
            if let Some(s) = hs[ix(*src)].clone() {
                hs[ix(*dst)] = Some(s);
            }
        }
        TOp::CloneShared { dst } => hs[ix(*dst)] = Some(shared.to_string()),
        TOp::CloneFrom { src, dst } => {
            if ix(*src) != ix(*dst) {
                if let (Some(s), true) = (hs[ix(*src)].clone(), hs[ix(*dst)].is_some()) {
                    hs[ix(*dst)] = Some(s);
                }
            }
        }
        TOp::CloneFromShared { dst } => {
            if hs[ix(*dst)].is_some() {
                hs[ix(*dst)] = Some(shared.to_string());
            }
        }
        TOp::Drop { h } => hs[ix(*h)] = None,
        TOp::Read { .. } | TOp::ReadShared | TOp::Reserve { .. } | TOp::ShrinkTo { .. } => {}
        TOp::Push { h, ch } => {
            if let Some(s) = hs[ix(*h)].as_mut() {
                s.push(*ch)
            }
        }
        TOp::PushStr { h, text } => {
            if let Some(s) = hs[ix(*h)].as_mut() {
                s.push_str(text)
            }
        }
        TOp::Insert { h, at, ch } => {
            if let Some(s) = hs[ix(*h)].as_mut() {
                let i = boundary_at(s, *at);
                s.insert(i, *ch)
            }
        }
        TOp::Remove { h, at } => {
            if let Some(s) = hs[ix(*h)].as_mut() {
                let i = boundary_at(s, *at);
                if i < s.len() {
                    s.remove(i);
                }
            }
        }
        TOp::Retain { h, mask } => {
            if let Some(s) = hs[ix(*h)].as_mut() {
                let mut k = 0u32;
                s.retain(|_| {
                    let keep = (mask >> (k % 64)) & 1 == 1;
                    k += 1;
                    keep
                })
            }
        }
        TOp::Truncate { h, at } => {
            if let Some(s) = hs[ix(*h)].as_mut() {
                let i = boundary_at(s, *at);
                s.truncate(i)
            }
        }
        TOp::Pop { h } => {
            if let Some(s) = hs[ix(*h)].as_mut() {
                s.pop();
            }
        }
        TOp::Clear { h } => {
            if let Some(s) = hs[ix(*h)].as_mut() {
                s.clear()
            }
        }
    }
}

fn op_strategy(shared: bool) -> BoxedStrategy<TOp> {
    let h = || 0u8..HANDLES as u8;
    let ch = || select(vec!['a', 'é', '€', '𝄞', 'z']);
    let mut v: Vec<(u32, BoxedStrategy<TOp>)> = vec![
        (6, (h(), h()).prop_map(|(src, dst)| TOp::Clone { src, dst }).boxed()),
        (3, (h(), h()).prop_map(|(src, dst)| TOp::CloneFrom { src, dst }).boxed()),
        (5, h().prop_map(|h| TOp::Drop { h }).boxed()),
        (3, h().prop_map(|h| TOp::Read { h }).boxed()),
        (5, (h(), ch()).prop_map(|(h, ch)| TOp::Push { h, ch }).boxed()),
        (3, (h(), select(vec!["", "x", "0123456789abcdef0123", "é€"])).prop_map(|(h, t)| TOp::PushStr { h, text: t.to_string() }).boxed()),
        (3, (h(), any::<u16>(), ch()).prop_map(|(h, at, ch)| TOp::Insert { h, at, ch }).boxed()),
        (3, (h(), any::<u16>()).prop_map(|(h, at)| TOp::Remove { h, at }).boxed()),
        (2, (h(), any::<u64>()).prop_map(|(h, mask)| TOp::Retain { h, mask }).boxed()),
        (3, (h(), any::<u16>()).prop_map(|(h, at)| TOp::Truncate { h, at }).boxed()),
        (2, h().prop_map(|h| TOp::Pop { h }).boxed()),
        (2, h().prop_map(|h| TOp::Clear { h }).boxed()),
        (3, (h(), select(vec![0u16, 1, 8, 40, 200])).prop_map(|(h, n)| TOp::Reserve { h, n }).boxed()),
        (3, (h(), select(vec![0u16, 5, 17, 30, 100])).prop_map(|(h, n)| TOp::ShrinkTo { h, n }).boxed()),
    ];
    if shared {
        v.push((4, h().prop_map(|dst| TOp::CloneShared { dst }).boxed()));
        v.push((2, h().prop_map(|dst| TOp::CloneFromShared { dst }).boxed()));
        v.push((2, Just(TOp::ReadShared).boxed()));
    }
    proptest::strategy::Union::new_weighted(v).boxed()
}

fn thread_strategy(shared: bool, max_ops: usize) -> BoxedStrategy<ThreadSpec> {
    let init = vec(prop_oneof![1 => Just(None), 3 => Just(Some(u16::MAX)), 2 => any::<u16>().prop_map(Some)], 1..=HANDLES);
    (init, vec(op_strategy(shared), 1..=max_ops)).prop_map(|(init, ops)| ThreadSpec { init, ops }).boxed()
}

pub fn program_strategy(max_threads: usize, max_ops: usize) -> BoxedStrategy<Program> {
    let texts = vec![
        "abcdefghijklmnopqrstuvwxyz".to_string(),
        "0123456789abcdefg".to_string(),
        "ééééééééééééé€€𝄞".to_string(),
        "x".repeat(40),
    ];
    (select(texts), select(vec![0u16, 0, 1, 8, 64]), any::<bool>())
        .prop_flat_map(move |(base_text, spare, shared_ref)| {
            (
                Just(base_text),
                Just(spare),
                Just(shared_ref),
                thread_strategy(shared_ref, max_ops.min(3)),
                vec(thread_strategy(shared_ref, max_ops), 1..=max_threads),
            )
        })
        .prop_map(|(base_text, spare, shared_ref, main, threads)| Program { base_text, spare, shared_ref, main, threads })
        .boxed()
}
