#!/bin/sh
# tools/benign_matrix.sh [extra check ids]: every stored behaviour-changing but property-preserving change
# (benign/<ID>-b<k>/patch.diff) against the quick check of the property it was written for (plus the extra ids).
# Every line must read rc=0: these are the false-alarm controls. /repo must be clean; it is restored after each change.
cd "$(dirname "$0")/.." || exit 2
for d in benign/*/; do
    name=$(basename "$d"); prop=${name%%-*}
    [ -f "$d/patch.diff" ] || continue
    for id in $prop "$@"; do
        r=$(tools/try_mutant.sh "$PWD/$d/patch.diff" "$id" 2>&1 | grep -a " rc=" | tail -1 | cut -c1-200)
        echo "$name :: $r"
    done
done
