#!/usr/bin/env python3
"""miri32.py <PROP> <cases> | miri32.py <PROP> --replay <file>
Supplementary engine for 32-bit-only code: proptest-generated histories over strings around 2^24 bytes, run under
Miri for i686-unknown-linux-gnu (String model for values, Miri for memory safety and leaks).
exit 0 ok, 1 VIOLATION printed, 2 infrastructure trouble (Miri/i686 sysroot unavailable ...)."""
import json, os, re, subprocess, sys, time, hashlib
prop = sys.argv[1]
V = os.environ.get("VERIF_DIR", "/verif")
seed = os.environ.get("VERIF_SEED", "0")
env = dict(os.environ, CARGO_NET_OFFLINE="true", MIRIFLAGS="-Zmiri-disable-isolation")
base = ["cargo", "+nightly", "miri", "run", "--target", "i686-unknown-linux-gnu", "--"]
t0 = time.time()
if sys.argv[2] == "--replay":
    doc = json.load(open(sys.argv[3])); args = ["--case", doc["case"]["ops"]]
else:
    args = [seed, sys.argv[2]]
p = subprocess.run(base + args, cwd=f"{V}/harness-miri32", env=env, capture_output=True, text=True, timeout=3 * 3600)
out = p.stdout + "\n" + p.stderr
cases = re.findall(r"^CASE (\d+) (.*)$", out, re.M)
done = re.search(r"^DONE (\d+)", out, re.M)
if not cases and p.returncode != 0:
    sys.stderr.write(out[-2000:]); print(f"INCONCLUSIVE property={prop}: Miri for i686 could not be run (not a violation)", file=sys.stderr); sys.exit(2)
summary = {"engine": "lsv32 under cargo +nightly miri, --target i686-unknown-linux-gnu", "histories": len(cases), "completed": bool(done),
           "sample": cases[0][1] if cases else "", "wall_s": round(time.time() - t0, 1)}
ev_path = f"{V}/evidence/{prop}.json"
if sys.argv[2] != "--replay":
    try:
        ev = json.load(open(ev_path)); ev["coverage"]["i686_miri"] = summary
        ev["coverage"]["evaluations"] = ev["coverage"].get("evaluations", 0) + len(cases)
        ev["wall_s"] = ev.get("wall_s", 0) + summary["wall_s"]
        if p.returncode != 0: ev["violations"] = 1
        json.dump(ev, open(ev_path, "w"), indent=1)
    except Exception as e:
        print(f"cannot update evidence: {e}", file=sys.stderr)
if p.returncode == 0 and done:
    print(f"OK i686-miri property={prop} histories={len(cases)} wall_s={summary['wall_s']}"); sys.exit(0)
err = re.search(r"^(error: .*|thread .* panicked.*\n.*)$", out, re.M)
detail = err.group(1)[:400] if err else "Miri exited with an error"
ops = cases[-1][1] if cases else ""
os.makedirs(f"{V}/replays", exist_ok=True)
path = f"{V}/replays/{prop}-miri32-{hashlib.sha1(ops.encode()).hexdigest()[:12]}.json"
json.dump({"property": prop, "engine": "lsv32-miri-i686", "seed": int(seed), "case": {"kind": "miri32", "ops": ops},
           "failure": {"oracle": f"{prop}.i686_miri", "step": 0, "detail": detail}}, open(path, "w"), indent=1)
print(f"i686/Miri: {detail}"); print(f"VIOLATION property={prop} replay={path}"); sys.exit(1)
