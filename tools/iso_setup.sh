#!/bin/sh
# tools/iso_setup.sh : an isolated copy of /verif and /repo under $ISO_DIR (default /tmp/iso) (for trying seeded changes while a long
# background run uses /repo itself). Registered commands never use it.
set -e
ISO="${ISO_DIR:-/tmp/iso}"
mkdir -p "$ISO/verif"
[ -d $ISO/repo ] || git -C /repo worktree add -q --detach $ISO/repo HEAD
git -C $ISO/repo checkout -q --detach "$(git -C /repo rev-parse HEAD)"
# sources are synchronised, build output of the copy is kept (incremental rebuilds)
rsync -a --delete --exclude 'work/' --exclude 'replays/' --exclude 'target/' --exclude 'target-c20/' --exclude '.git/' /verif/ $ISO/verif/
grep -rl '"/repo"' $ISO/verif/harness/*/Cargo.toml $ISO/verif/harness-loom/Cargo.toml $ISO/verif/harness-miri32/Cargo.toml $ISO/verif/fuzz/Cargo.toml | xargs sed -i "s|\"/repo\"|\"$ISO/repo\"|"
sed -i "s|cd /repo |cd $ISO/repo |g" $ISO/verif/check
sed -i "s|/repo|$ISO/repo|g; s|cd /verif|cd $ISO/verif|" $ISO/verif/tools/try_mutant.sh
echo "iso ready: $ISO/verif/tools/try_mutant.sh <patch> <ids>"
