#!/bin/sh
# tools/iso_setup.sh : an isolated copy of /verif and /repo under /tmp/iso (for trying seeded changes while a long
# background run uses /repo itself). Registered commands never use it.
set -e
mkdir -p /tmp/iso/verif
[ -d /tmp/iso/repo ] || git -C /repo worktree add -q --detach /tmp/iso/repo HEAD
git -C /tmp/iso/repo checkout -q --detach "$(git -C /repo rev-parse HEAD)"
# sources are synchronised, build output of the copy is kept (incremental rebuilds)
rsync -a --delete --exclude 'work/' --exclude 'replays/' --exclude 'target/' --exclude 'target-c20/' --exclude '.git/' /verif/ /tmp/iso/verif/
grep -rl '"/repo"' /tmp/iso/verif/harness/*/Cargo.toml /tmp/iso/verif/harness-loom/Cargo.toml /tmp/iso/verif/harness-miri32/Cargo.toml /tmp/iso/verif/fuzz/Cargo.toml | xargs sed -i 's|"/repo"|"/tmp/iso/repo"|'
sed -i 's|cd /repo |cd /tmp/iso/repo |g' /tmp/iso/verif/check
sed -i 's|/repo|/tmp/iso/repo|g; s|cd /verif|cd /tmp/iso/verif|' /tmp/iso/verif/tools/try_mutant.sh
echo "iso ready: /tmp/iso/verif/tools/try_mutant.sh <patch> <ids>"
