#!/usr/bin/env python3
"""keep_mutant.py <PROP> <K> <caught_by_csv> <missed_by_csv> [note]: stores /tmp/mut/out/<PROP>/mutantK.* as /verif/seeded/<PROP>-mK/"""
import sys, os, json, shutil
prop, k, caught, missed = sys.argv[1:5]
note = sys.argv[5] if len(sys.argv) > 5 else ""
src = os.environ.get("SRC", f"/tmp/mut/out/{prop}")
dst = f"/verif/seeded/{prop}-" + os.environ.get("TAG", "m") + f"{k}"
os.makedirs(dst, exist_ok=True)
shutil.copy(f"{src}/mutant{k}.diff", f"{dst}/patch.diff")
shutil.copy(f"{src}/demo{k}.rs", f"{dst}/demo.rs")
meta_txt = open(f"{src}/meta{k}.txt").read()
meta = {
    "property": prop,
    "origin": "independent sub-agent given only the property text and a scratch worktree of /repo",
    "description_by_author": meta_txt,
    "confirmed": "tools/verify_mutant.sh in a fresh scratch worktree: patch applies; cargo test --offline --workspace passes with the patch (92 baseline tests + doctests); demo.rs (as tests/zz_demo.rs) passes on the unpatched tree and fails with the patch",
    "checks_run": "tools/try_mutant.sh patch.diff <ids> (git -C /repo apply; ./check <id> quick; git -C /repo checkout -- .)",
    "caught_by_quick": [c for c in caught.split(",") if c],
    "not_caught_by_quick": [c for c in missed.split(",") if c],
    "note": note,
}
json.dump(meta, open(f"{dst}/meta.json", "w"), indent=1)
print("kept", dst)
