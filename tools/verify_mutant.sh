#!/bin/sh
# tools/verify_mutant.sh <dir-with-mutantK.diff,demoK.rs> <K> : confirms in a scratch worktree that the mutant
# applies, builds, passes the baseline suite, and that the demo fails with it and passes without.
set -u
DIR="$1"; K="$2"
WT=/tmp/mutverify-$$
git -C /repo worktree add -q --detach "$WT" HEAD || exit 2
cleanup() { git -C /repo worktree remove --force "$WT" >/dev/null 2>&1; rm -rf "$WT"; }
trap cleanup EXIT
cd "$WT" || exit 2
export CARGO_TARGET_DIR=/tmp/mutverify-target
cp "$DIR/demo$K.rs" tests/zz_demo.rs
EXTRA="${DEMO_CARGO_ARGS:-}"
if cargo test --offline $EXTRA --test zz_demo >/tmp/mutverify-clean.log 2>&1; then echo "demo-on-clean: PASS"; else echo "demo-on-clean: FAIL (bad demo)"; tail -5 /tmp/mutverify-clean.log; fi
git apply "$DIR/mutant$K.diff" || { echo "patch does not apply"; exit 1; }
rm tests/zz_demo.rs
if cargo test --offline --workspace --no-fail-fast >/tmp/mutverify-suite.log 2>&1; then echo "baseline-with-mutant: PASS ($(grep -c '\.\.\. ok' /tmp/mutverify-suite.log) ok)"; else echo "baseline-with-mutant: FAIL"; grep -E "FAILED|failed" /tmp/mutverify-suite.log | head; fi
cp "$DIR/demo$K.rs" tests/zz_demo.rs
if cargo test --offline $EXTRA --test zz_demo >/tmp/mutverify-mut.log 2>&1; then echo "demo-with-mutant: PASS (mutant not demonstrated)"; else echo "demo-with-mutant: FAIL (as intended)"; fi
