#!/usr/bin/env python3
"""fuzz_campaign.py <PROP> <target> <runs_per_job> [jobs]
Coverage-guided campaign (libFuzzer + ASan via cargo-fuzz) attached to the thorough tier of a check.
Builds the target against /repo's working tree, seeds a fresh corpus with pseudo-random files (function of
VERIF_SEED), runs `jobs` libFuzzer processes, folds the result into evidence/<PROP>.json.
exit 0: nothing found for PROP; 1: VIOLATION line printed; 2: infrastructure trouble."""
import json, os, random, re, subprocess, sys, glob, shutil, time
prop, target, runs = sys.argv[1], sys.argv[2], int(sys.argv[3])
jobs = int(sys.argv[4]) if len(sys.argv) > 4 else 16
V = os.environ.get("VERIF_DIR", "/verif")
seed = int(os.environ.get("VERIF_SEED", "0"))
env = dict(os.environ, CARGO_NET_OFFLINE="true")
t0 = time.time()
b = subprocess.run(["cargo", "+nightly", "fuzz", "build", "--fuzz-dir", f"{V}/fuzz", target], cwd=f"{V}/harness", env=env, capture_output=True, text=True)
if b.returncode != 0:
    sys.stderr.write(b.stderr[-3000:]); print(f"BUILD-FAILED property={prop} (fuzz target)", file=sys.stderr); sys.exit(2)
exe = f"{V}/fuzz/target/x86_64-unknown-linux-gnu/release/{target}"
work = f"{V}/work/{prop}/fuzz-{target}"
shutil.rmtree(work, ignore_errors=True)
os.makedirs(f"{work}/corpus"); os.makedirs(f"{work}/artifacts"); os.makedirs(f"{work}/replays")
r = random.Random(seed * 7919 + 17)
for i in range(300):
    open(f"{work}/corpus/seed{i:03d}", "wb").write(bytes(r.randrange(256) for _ in range(r.choice([16, 32, 64, 128, 256, 512]))))
env["LSV_FUZZ_REPLAYS"] = f"{work}/replays"
procs = []
for j in range(jobs):
    log = open(f"{work}/job{j}.log", "w")
    procs.append(subprocess.Popen([exe, f"{work}/corpus", f"-runs={runs}", f"-seed={seed * 1000 + j + 1}", "-len_control=0", "-max_len=1024",
                                   f"-artifact_prefix={work}/artifacts/", "-print_final_stats=1", "-rss_limit_mb=4096"], cwd=work, env=env, stdout=log, stderr=subprocess.STDOUT))
rcs = [p.wait() for p in procs]
execs = 0; findings = []
for j in range(jobs):
    txt = open(f"{work}/job{j}.log", errors="replace").read()
    m = re.findall(r"stat::number_of_executed_units:\s*(\d+)", txt)
    if m: execs += int(m[-1])
    else:
        m = re.findall(r"^#(\d+)\s", txt, re.M)
        if m: execs += int(m[-1])
    for mm in re.finditer(r"FUZZ-FAILURE clause=(\S+) .*?replay=(\S+)", txt):
        findings.append((mm.group(1), mm.group(2)))
    if rcs[j] != 0 and "FUZZ-FAILURE" not in txt:
        arts = sorted(glob.glob(f"{work}/artifacts/crash-*") + glob.glob(f"{work}/artifacts/oom-*") + glob.glob(f"{work}/artifacts/timeout-*"), key=os.path.getmtime)
        kind = "sanitizer" if "AddressSanitizer" in txt else ("oom" if "out-of-memory" in txt else ("timeout" if "timeout" in txt.lower() else "crash"))
        findings.append((f"?.{kind}", arts[-1] if arts else ""))
own = [f for f in findings if f[0].startswith(prop)]
san = [f for f in findings if f[0] == "?.sanitizer" or f[0] == "?.crash"]
inconclusive = [f for f in findings if f[0] in ("?.oom", "?.timeout")]
foreign = [f for f in findings if f not in own and f not in san and f not in inconclusive]
ev_path = f"{V}/evidence/{prop}.json"
try:
    ev = json.load(open(ev_path))
    cov = ev["coverage"]
    cov["fuzz"] = {"target": target, "engine": "libFuzzer + AddressSanitizer (cargo-fuzz), fresh corpus of 300 pseudo-random seed files, -len_control=0 -max_len=1024",
                   "jobs": jobs, "runs_per_job": runs, "executions": execs, "findings_for_this_property": len(own), "sanitizer_reports": len(san),
                   "foreign_findings": [f[0] for f in foreign], "inconclusive": [f[0] for f in inconclusive], "wall_s": round(time.time() - t0, 1)}
    cov["evaluations"] = cov.get("evaluations", 0) + execs
    ev["wall_s"] = ev.get("wall_s", 0) + round(time.time() - t0, 1)
    if own or san: ev["violations"] = 1
    json.dump(ev, open(ev_path, "w"), indent=1)
except Exception as e:
    print(f"cannot update evidence: {e}", file=sys.stderr)
os.makedirs(f"{V}/replays", exist_ok=True)
if own:
    dst = f"{V}/replays/{os.path.basename(own[0][1])}"
    shutil.copy(own[0][1], dst)
    print(f"fuzz finding {own[0][0]}"); print(f"VIOLATION property={prop} replay={dst}"); sys.exit(1)
if san and prop in ("C01", "C03"):
    # a sanitizer report without an oracle failure: keep the raw input, decoded by `lsv decode`
    raw = san[0][1]; dst = f"{V}/replays/{prop}-fuzz-{os.path.basename(raw)}.json"
    d = subprocess.run([f"{V}/harness/target/release/lsv", "decode", raw, prop], capture_output=True, text=True)
    open(dst, "w").write(d.stdout if d.returncode == 0 and d.stdout.strip() else json.dumps({"property": prop, "engine": target, "case": {"kind": "raw_fuzz_input", "path": raw}}))
    print("AddressSanitizer / crash report without an oracle failure"); print(f"VIOLATION property={prop} replay={dst}"); sys.exit(1)
print(f"OK fuzz property={prop} target={target} executions={execs} foreign={len(foreign)} inconclusive={len(inconclusive)} wall_s={time.time() - t0:.0f}")
sys.exit(0)
