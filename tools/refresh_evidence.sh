#!/bin/sh
# Re-runs every quick check on the unchanged tree (VERIF_SEED default 0) so that the committed evidence is current.
cd "$(dirname "$0")/.." || exit 2
git -C /repo diff --quiet || { echo "/repo is dirty"; exit 2; }
for id in C01 C02 C03 C04 C05 C06 C07 C08 C09 C10 C11 C12 C13 C14 C15 C16 C17 C18 C19 C20; do
    ./check $id quick 2>&1 | grep -E "^(OK|VIOLATION|INCONCLUSIVE|BUILD|INFRA)" | head -1
done
