#!/bin/sh
# tools/seeded_matrix.sh [extra check ids]: every seeded change against the quick check of the property it targets
# (plus the extra ids); prints one line per (change, check). /repo must be clean; it is restored after each change.
cd "$(dirname "$0")/.." || exit 2
for d in seeded/*/; do
    name=$(basename "$d"); prop=${name%%-*}
    [ -f "$d/patch.diff" ] || continue
    for id in $prop "$@"; do
        r=$(tools/try_mutant.sh "$PWD/$d/patch.diff" "$id" 2>&1 | grep -a " rc=" | tail -1 | cut -c1-200)
        echo "$name :: $r"
    done
done
