#!/usr/bin/env python3
"""Generates /verif/MANIFEST.json from the table below (keeps it valid and in one place)."""
import json, os, sys
ROOT = os.path.dirname(os.path.dirname(os.path.abspath(__file__)))
HOOK_COMMITS = ["9f2e238"]
TRUST = ("trusted base: rustc/std (String is the reference model), proptest 1.11 generators and shrinking, the harness "
         "(shadow heap, interpreter) itself; 64-bit little-endian only; lean_string compiled with feature verif-hooks "
         "and debug assertions; bounded history length / text size as stated in the evidence rule")
CHECKS = {
 "C01": ("exploration", "lsv", "model-based stateful PBT: proptest histories vs a String reference model, all storage states, shrinking to a replay",
         "Generated operation histories over 6 handles are run against the real crate and a String per handle; every read-back and return value is compared after every step. Exploration, not proof: bounded histories (40 quick / 120 thorough ops).", "DESIGN.md §6 C01"),
 "C02": ("exploration", "lsv", "model-based stateful PBT, sharing-heavy generator; invariant: non-target handles keep raw bytes, pointer, length, text",
         "Every step compares all handles that are not the operation's target before/after (raw 16 bytes, pointer, length, text vs model), in histories where buffers are shared, truncated while shared and later written in place.", "DESIGN.md §6 C02"),
 "C03": ("exploration", "lsv", "model-based stateful PBT with a shadow heap (guard zones, quarantine, always-moving realloc) and a refcount-equals-live-handles invariant after every step",
         "The crate's own allocator calls go through a shadow heap: exact layout on free, no double free, no access outside live blocks (access notes), refcount == live handles per buffer after every step, no orphan block, empty heap at the end; incl. failing and panicking operations.", "DESIGN.md §6 C03"),
 "C05": ("fault_enumeration", "lsv", "fault injection enumerated over every allocator request of proptest-generated histories (singles; pairs in thorough)",
         "For each generated history every allocator request index is failed in turn (thorough: pairs); oracle: Err/clean panic, target unchanged (or whole-item prefix for iterator-driven calls), other handles untouched, refcounts and heap consistent, nothing leaked.", "DESIGN.md §6 C05"),
 "C13": ("exploration", "lsv", "exhaustive grid capacity x length x min_capacity x sharing plus proptest histories; postcondition oracle taken from the statement",
         "Exhaustive grid over capacities/lengths/min_capacity/sharing situations plus generated histories; checks the statement's bounds and the exact landing size whenever the precondition holds.", "DESIGN.md §6 C13"),
 "C18": ("fault_enumeration", "lsv", "callback-panic position enumeration over proptest-generated histories, String-after-same-panic as oracle, shadow-heap leak accounting",
         "Every callback-taking operation of each generated history is re-run with its callback panicking at invocation k for every k that fires; compared with String after the identical panic, plus isolation, refcount and leak invariants.", "DESIGN.md §6 C18"),
}
NOT_YET = {}
def main():
    props = [json.loads(l)["id"] for l in open(os.path.join(ROOT, "properties.jsonl"))]
    checks = []
    for pid in props:
        if pid not in CHECKS: continue
        level, engine, technique, text, ref = CHECKS[pid]
        checks.append({
            "property_id": pid,
            "quick_cmd": f"./check {pid} quick",
            "thorough_cmd": f"./check {pid} thorough",
            "evidence_file": f"evidence/{pid}.json",
            "replay_cmd_template": f"./check {pid} --replay {{path}}",
            "engine": engine,
            "level_claimed": {"category": level, "text": text, "design_ref": ref},
            "level_note": TRUST,
            "technique": technique,
        })
    na = [{"property_id": p, "reason": NOT_YET.get(p, "check under construction in this session (engine designed in DESIGN.md, not yet committed)")} for p in props if p not in CHECKS]
    m = {
        "version": 1,
        "setup_cmd": "./setup.sh",
        "hooks": {
            "guard": "verif-hooks",
            "enable": "cargo feature: harness crates depend on lean_string = { path = \"/repo\", features = [\"verif-hooks\"] }",
            "baseline_off_cmd": "cd /repo && cargo test --workspace --no-fail-fast --offline",
            "source_commits": HOOK_COMMITS,
            "add_only": True,
        },
        "engines": [
            {"name": "lsv", "path": "harness/", "serves_properties": sorted(p for p, c in CHECKS.items() if c[1] == "lsv"),
             "kind_free_text": "proptest-driven stateful model-based history explorer with shadow heap, fault/panic enumerators, grids and value-domain differential engines"},
        ],
        "checks": checks,
        "notes": "All checks: ./check <ID> quick|thorough (cwd /verif); VERIF_SEED honoured; exit 2 = infrastructure trouble / inconclusive, never a violation. Fix commits in /repo are listed in known_findings.json.",
        "not_applicable": na,
    }
    json.dump(m, open(os.path.join(ROOT, "MANIFEST.json"), "w"), indent=1)
    print("checks:", [c["property_id"] for c in checks], "not claimed:", [x["property_id"] for x in na])
main()
