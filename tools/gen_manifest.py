#!/usr/bin/env python3
"""Generates /verif/MANIFEST.json from the table below (keeps it valid and in one place)."""
import json, os, sys
ROOT = os.path.dirname(os.path.dirname(os.path.abspath(__file__)))
HOOK_COMMITS = ["9f2e238", "471c9da"]
TRUST = ("trusted base: rustc/std (String is the reference model), proptest 1.11 generators and shrinking, the harness "
         "(shadow heap, interpreter) itself; 64-bit little-endian only; lean_string compiled with feature verif-hooks; "
         "every lsv-engine check and C19 run twice, with the engine and the crate built without and with debug assertions "
         "(a violation in either is reported; an inconclusive pass without them never counts as a pass); bounded history length / text size as stated in the evidence rule")
CHECKS = {
 "C01": ("exploration", "lsv", "model-based stateful PBT: proptest histories vs a String reference model, all storage states, shrinking to a replay",
         "Generated operation histories over 6 handles are run against the real crate and a String per handle; every read-back and return value is compared after every step. Exploration, not proof: bounded histories (40 quick / 120 thorough ops).", "DESIGN.md §6 C01"),
 "C02": ("exploration", "lsv", "model-based stateful PBT, sharing-heavy generator; invariant: non-target handles keep raw bytes, pointer, length, text",
         "Every step compares all handles that are not the operation's target before/after (raw 16 bytes, pointer, length, text vs model), in histories where buffers are shared, truncated while shared and later written in place; also with every allocator request failing in turn, with callbacks and a simulated second thread dropping or cloning sibling handles in the middle of an operation, and with writes into borrowed static texts.", "DESIGN.md §6 C02"),
 "C03": ("exploration", "lsv", "model-based stateful PBT with a shadow heap (guard zones, quarantine, always-moving realloc) and a refcount-equals-live-handles invariant after every step",
         "The crate's own allocator calls go through a shadow heap: exact layout on free, no double free, no access outside live blocks (access notes), refcount == live handles per buffer after every step, no orphan block, empty heap at the end; incl. failing and panicking operations and a simulated second thread at the crate's allocator calls; run with engines built with and without debug assertions.", "DESIGN.md §6 C03"),
 "C04": ("exploration", "lsv-loom", "proptest-generated concurrent programs, each explored by loom over all schedules up to a preemption bound; buffer accesses mapped to loom cells through the hooks; per-thread sequential String model",
         "Small concurrent programs over one shared heap buffer are generated and shrunk by proptest; for each, loom enumerates schedules and visibility orders. Oracles in every execution: each thread's handles read what its own operations produce; no buffer access (reads, write windows, realloc, free) unordered with a conflicting one; every buffer released exactly once. Bounded by loom's preemption bound and memory-model subset.", "DESIGN.md §5.4, §6 C04"),
 "C05": ("fault_enumeration", "lsv", "fault injection enumerated over every allocator request of proptest-generated histories (singles; pairs in thorough)",
         "For each generated history every allocator request index is failed in turn (thorough: pairs); oracle: Err/clean panic, target handle identical (or whole-item prefix for iterator-driven calls), other handles untouched, refcounts and heap consistent, nothing leaked. A catalogue of 9 target states x every allocating/callback operation is enumerated too, and every allocation an entry point makes outside the crate's own buffer management (none on the unchanged tree) is refused in turn (an abort is reported through crash triage).", "DESIGN.md §6 C05"),
 "C06": ("exploration", "lsv", "exhaustive size grid (powers of two, 56-bit boundary, isize/usize MAX, each +-2 and minus len) x entry points x target states, plus proptest histories with giant sizes and lying size hints; shim refuses giant requests deterministically; ordinary-size grid cases re-run with each allocator request failing",
         "Every grid size through every size-taking entry point (incl. iterator size hints) in 9 storage states, followed by further use of all handles; oracle: documented postcondition on Ok, ReserveError only when a limit is exceeded or the allocator refused, target/other handles/refcounts/heap unchanged after a failure, clean panic text for the panicking forms.", "DESIGN.md §6 C06"),
 "C07": ("exploration", "lsv", "index grid: all UTF-8 width patterns x storage states x index operations x every byte index, differential against String's panics; plus proptest histories",
         "Panic parity with String on every byte index 0..=len+2 and usize::MAX for insert/insert_str/remove/truncate (try_ and plain) over all character-width patterns in every storage state, and no effect of a panicking call on target, other handles, allocator and refcounts.", "DESIGN.md §6 C07"),
 "C08": ("exploration", "lsv", "clone sweep over lengths 0..4 MiB x source states x clone counts with an allocator-request counter, the same on buffers whose reference count was first raised to around every power of two up to 2^62 (guarded hook), plus clone oracles inside proptest histories",
         "All clone-like calls are checked for zero allocator requests, pointer identity (heap/static) or equal handle bytes (inline), equality and intact survivors after drops, across lengths, states and clone counts.", "DESIGN.md §6 C08"),
 "C09": ("exploration", "lsv", "constructor sweep over all width compositions <= 16 bytes and every final byte, through every listed route, with an allocator-request counter; proptest inline-edit histories",
         "Every listed constructor/conversion on every text shape up to 16 bytes (every final byte value) must not touch the allocator - neither the crate's own buffer management (hooks) nor anything else (a counting global allocator sees temporaries) - incl. owned inputs with spare capacity; longer texts must allocate exactly once with capacity == len; inline edit histories staying within 16 bytes must not allocate.", "DESIGN.md §6 C09"),
 "C10": ("exploration", "lsv", "stateful PBT over handles derived from a pool of leaked 'static texts; pristine-copy comparison after every step; allocator-request counter",
         "from_static_str/clone/pop/truncate/clear on static handles never allocate and keep pointing at the caller's bytes; any later operation leaves the handle a prefix of the static text or an owned copy equal to the model; the static bytes are compared with pristine copies after every step.", "DESIGN.md §6 C10"),
 "C11": ("exploration", "lsv", "stateful PBT with capacity-relative argument generation (fill to capacity +-2); invariant capacity >= len on every handle every step; zero-request oracle within capacity",
         "capacity() >= len() for every handle after every step, with_capacity/reserve postconditions, exclusivity after reserve, the reported capacity physically fits the allocation, and appends/inserts that fit the reported capacity of an exclusively owned string neither allocate nor move.", "DESIGN.md §6 C11"),
 "C12": ("exploration", "lsv", "growth-event oracle (two-sided bound from the statement; for iterator- and formatter-driven appends the bounds that follow for a chain of growth steps) inside proptest histories plus push-one-char loops with request and bytes-moved counters",
         "Every growth event in generated histories is checked against both bounds of the statement; push loops up to 2^20 (thorough 4*2^20) characters are bounded in allocator requests (logarithmic) and bytes moved (linear).", "DESIGN.md §6 C12"),
 "C13": ("exploration", "lsv", "exhaustive grid capacity (17 bytes ... 1 MiB) x length x min_capacity x sharing plus proptest histories; postcondition oracle taken from the statement",
         "Exhaustive grid over capacities/lengths/min_capacity/sharing situations plus generated histories; checks the statement's bounds and the exact landing size whenever the precondition holds.", "DESIGN.md §6 C13"),
 "C14": ("exploration", "lsv", "differential vs core Display: exhaustive 8/16-bit (thorough: 32-bit), all power-of-ten/two/extreme boundaries, proptest values uniform per digit count, shadow heap guard zones",
         "to_lean_string/try_to_lean_string of every integer type against core Display written into a stack buffer; exhaustive where feasible, boundary-complete and densely sampled elsewhere.", "DESIGN.md §6 C14"),
 "C15": ("exploration", "lsv", "differential vs to_string for bool/char(exhaustive)/strings/LeanStrings/piecewise Display impls; float round-trip by bit pattern (stratified; thorough all 2^32 f32)",
         "Equality with to_string for every non-float arm incl. the generic fmt::Write arm with multi-piece and failing Display impls (Err(Fmt) exactly when Display fails); floats parse back to identical bits.", "DESIGN.md §6 C15"),
 "C16": ("exploration", "lsv", "differential vs String::from_utf8/_lossy/from_utf16/_lossy: exhaustive bounded sequences over byte-class and surrogate alphabets plus proptest spliced inputs",
         "All four decoders agree with std on acceptance and text for every bounded sequence over alphabets covering every UTF-8 byte class / UTF-16 surrogate boundary, and on long spliced inputs crossing the inline limit.", "DESIGN.md §6 C16"),
 "C17": ("exploration", "lsv", "metamorphic PBT: same text built through 12 different histories (recipes) must compare/hash/format identically and like str; proptest pairs",
         "Pairs of strings built through different storage histories are compared with every reader (==, cmp, hash, Display/Debug, foreign == in both orders, map lookups by &str, AsRef/Deref) against the same operations on the texts.", "DESIGN.md §6 C17"),
 "C18": ("fault_enumeration", "lsv", "callback-panic position enumeration over proptest-generated histories, String-after-same-panic as oracle, shadow-heap leak accounting",
         "Every callback-taking operation of each generated history is re-run with its callback panicking at invocation k for every k that fires; compared with String after the identical panic, plus isolation, refcount and leak invariants.", "DESIGN.md §6 C18"),
 "C19": ("exploration", "lsv-features", "differential vs String/&str with the serde and arbitrary features on: recording Serializer (human-readable and not), serde value deserializers, serde_json, exhaustive byte-class sequences, proptest texts and Unstructured seeds",
         "Serialisation equals String's (one serialize_str), every str/borrowed str/String/bytes/borrowed bytes input deserialises to the text or is rejected exactly when it is not UTF-8, every visitor entry point (visit_str/borrowed_str/string/bytes/borrowed_bytes/byte_buf and non-string inputs) and deserialize_in_place into 7 kinds of pre-existing content agree with String; LeanString::arbitrary / arbitrary_take_rest / size_hint equal <&str>'s on the same Unstructured over consecutive draws; with the crate's allocator refusing every request the integrations may fail but never yield another text.", "DESIGN.md §6 C19"),
 "C20": ("exploration", "lsv", "niche/layout sweep, Option round trips in proptest histories, and a configuration-matrix differential: identical seeded histories (a sixth of them with an injected allocation failure) digested in every feature set x optimisation level (and hooks-off builds)",
         "Sizes and alignment asserted; Some(s) matched as Some for every inline final byte and heap/static length; the same generated histories run with all C01-C03 oracles in the default build and produce identical value and allocator-event digests in {default, no-default-features, all features} x {optimised without debug assertions, unoptimised} and in hooks-off builds; all 8 feature combinations of the crate build.", "DESIGN.md §6 C20"),
}
NOT_YET = {}
def main():
    props = [json.loads(l)["id"] for l in open(os.path.join(ROOT, "properties.jsonl"))]
    checks = []
    for pid in props:
        if pid not in CHECKS: continue
        level, engine, technique, text, ref = CHECKS[pid]
        checks.append({
            "property_id": pid,
            "quick_cmd": f"./check {pid} quick",
            "thorough_cmd": f"./check {pid} thorough",
            "evidence_file": f"evidence/{pid}.json",
            "replay_cmd_template": f"./check {pid} --replay {{path}}",
            "engine": engine,
            "level_claimed": {"category": level, "text": text, "design_ref": ref},
            "level_note": TRUST,
            "technique": technique,
        })
    na = [{"property_id": p, "reason": NOT_YET.get(p, "check under construction in this session (engine designed in DESIGN.md, not yet committed)")} for p in props if p not in CHECKS]
    m = {
        "version": 1,
        "setup_cmd": "./setup.sh",
        "hooks": {
            "guard": "verif-hooks",
            "enable": "cargo feature: harness crates depend on lean_string = { path = \"/repo\", features = [\"verif-hooks\"] }",
            "baseline_off_cmd": "cd /repo && cargo test --workspace --no-fail-fast --offline",
            "source_commits": HOOK_COMMITS,
            "add_only": True,
        },
        "engines": [
            {"name": "lsv-loom", "path": "harness-loom/", "serves_properties": ["C04"],
             "kind_free_text": "proptest program generator + loom schedule exploration (one child process per program), hooks map buffer accesses to loom cells"},
            {"name": "lsv-features", "path": "harness/lsv-features/", "serves_properties": ["C19"],
             "kind_free_text": "differential engine built with lean_string's serde and arbitrary features"},
            {"name": "lsv", "path": "harness/", "serves_properties": sorted(p for p, c in CHECKS.items() if c[1] == "lsv"),
             "kind_free_text": "proptest-driven stateful model-based history explorer with shadow heap, fault/panic enumerators, grids and value-domain differential engines"},
        ],
        "checks": checks,
        "notes": "tools/: try_mutant.sh / verify_mutant.sh / seeded_matrix.sh (sensitivity against the 430+ seeded changes under seeded/), refresh_evidence.sh, silence.sh (multi-seed runs on the unchanged tree), iso_setup.sh. All checks: ./check <ID> quick|thorough (cwd /verif); VERIF_SEED honoured; exit 2 = infrastructure trouble / inconclusive, never a violation. Fix commits in /repo are listed in known_findings.json.",
        "not_applicable": na,
    }
    json.dump(m, open(os.path.join(ROOT, "MANIFEST.json"), "w"), indent=1)
    print("checks:", [c["property_id"] for c in checks], "not claimed:", [x["property_id"] for x in na])
main()
