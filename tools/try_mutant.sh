#!/bin/sh
# tools/try_mutant.sh <patch.diff> <check ids...> : applies the patch to /repo, runs the quick checks, reverts.
set -u
PATCH="$1"; shift
cd /verif || exit 2
git -C /repo diff --quiet || { echo "/repo is dirty"; exit 2; }
git -C /repo apply "$PATCH" || { echo "patch does not apply"; exit 2; }
# evidence written while a change is applied must not replace the evidence of the unchanged tree
BK="$PWD/work/evidence-backup.$$"; mkdir -p work; rm -rf "$BK"; cp -r evidence "$BK"
trap 'git -C /repo checkout -- . ; rm -rf evidence; mv "$BK" evidence' EXIT
TIER="${TIER:-quick}"
for id in "$@"; do
    out=$(./check "$id" "$TIER" 2>&1); rc=$?
    line=$(echo "$out" | grep -aE "^(VIOLATION|OK|INCONCLUSIVE|BUILD-FAILED|INFRASTRUCTURE)" | head -1)
    clause=$(echo "$out" | grep -aE "^violated clause" | head -1 | cut -c1-220)
    echo "$id rc=$rc $line | $clause"
done
