#!/bin/sh
# tools/silence.sh <tier> <seed...> : runs every check on the unchanged tree for the given seeds; prints anything that is not OK.
cd "$(dirname "$0")/.." || exit 2
TIER="$1"; shift
./setup.sh >/dev/null 2>&1
bad=0
for seed in "$@"; do
  for id in C01 C02 C03 C04 C05 C06 C07 C08 C09 C10 C11 C12 C13 C14 C15 C16 C17 C18 C19 C20; do
    t0=$(date +%s)
    out=$(VERIF_SEED=$seed ./check $id $TIER 2>&1); rc=$?
    t1=$(date +%s)
    echo "seed=$seed $id rc=$rc $((t1-t0))s $(echo "$out" | grep -E '^(OK|VIOLATION|INCONCLUSIVE|BUILD|INFRA)' | head -1 | cut -c1-160)"
    [ $rc -ne 0 ] && { bad=1; echo "$out" | tail -5; }
  done
done
echo "silence run finished, bad=$bad"
