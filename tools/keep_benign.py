#!/usr/bin/env python3
"""keep_benign.py <PROP> <K> <other_checks_silent_csv|all|-> <other_checks_reporting_csv> [note]: stores /tmp/mut/out7/<PROP>/mutantK.* as /verif/benign/<PROP>-bK/"""
import sys, os, json, shutil
prop, k, silent, reporting = sys.argv[1:5]
note = sys.argv[5] if len(sys.argv) > 5 else ""
src = os.environ.get("SRC", f"/tmp/mut/out7/{prop}")
dst = f"/verif/benign/{prop}-b{int(k) + int(os.environ.get('BK_OFFSET', '0'))}"
os.makedirs(dst, exist_ok=True)
shutil.copy(f"{src}/mutant{k}.diff", f"{dst}/patch.diff")
shutil.copy(f"{src}/demo{k}.rs", f"{dst}/demo.rs")
meta = {
    "property": prop,
    "kind": "false-alarm control: a change that alters incidental behaviour but keeps the property true",
    "origin": "independent sub-agent given only the property text and a scratch worktree of /repo",
    "description_by_author": open(f"{src}/meta{k}.txt").read(),
    "confirmed": "tools/verify_mutant.sh in a fresh scratch worktree: patch applies; cargo test --offline --workspace passes with the patch; demo.rs fails on the unpatched tree and passes with the patch (it asserts the new incidental behaviour); the argument that the property still holds was read and accepted",
    "expected": f"./check {prop} quick stays silent (exit 0) with the patch applied",
    "observed_own_check": "silent",
    "other_checks_silent": "all 19 others" if silent == "all" else ([c for c in silent.split(",") if c] if silent != "-" else "not run"),
    "other_checks_reporting": [c for c in reporting.split(",") if c],
    "note": note,
}
json.dump(meta, open(f"{dst}/meta.json", "w"), indent=1)
print("kept", dst)
