#!/bin/sh
# Builds the framework once, offline, from files on disk only.
set -e
cd "$(dirname "$0")"
export CARGO_NET_OFFLINE=true
mkdir -p evidence replays work
( cd harness && cargo build --release -p lsv )
echo "setup done"
