#!/bin/sh
# Builds the framework once, offline, from files on disk only.
set -e
cd "$(dirname "$0")"
export CARGO_NET_OFFLINE=true
mkdir -p evidence replays work
( cd harness && cargo build --release -p lsv -p lsv-features )
( cd harness && cargo build -q -p lsv -p lsv-features --profile relnoassert )
( cd harness-loom && cargo build --release )
# C20 matrix binaries (cached; the check rebuilds them incrementally)
( cd harness && mkdir -p target-c20 && for cfg in "default-relnoassert|hooks ls-std|relnoassert" "nodefault-relnoassert|hooks|relnoassert" "all-relnoassert|hooks ls-std ls-serde ls-arbitrary|relnoassert" "default-devplain|hooks ls-std|devplain" "nohooks-relnoassert|ls-std|relnoassert" "nohooks-devplain|ls-std|devplain"; do
    name="${cfg%%|*}"; rest="${cfg#*|}"; feats="${rest%%|*}"; prof="${rest#*|}"
    cargo build -q -p lsv --no-default-features --features "$feats" --profile "$prof" --target-dir "target-c20/$name" &
  done; wait )
echo "setup done"
