//! C19: serde and arbitrary integrations are transparent string wrappers.
//! Differential against String / &str on the same inputs.

use arbitrary::{Arbitrary, Unstructured};
use lean_string::LeanString;
use lsv_core::checks::common::digest;
use lsv_core::checks::values::BYTE_ALPHA;
use lsv_core::generate::text_strategy;
use lsv_core::ir::{hex_decode, hex_encode};
use lsv_core::runner::*;
use proptest::collection::vec;
use proptest::prelude::*;
use proptest::sample::select;
use serde::de::value::{BorrowedBytesDeserializer, BorrowedStrDeserializer, BytesDeserializer, Error as ValueError, StrDeserializer, StringDeserializer, U32Deserializer};
use serde::{Deserialize, Serialize};
use serde_json::{Value, json};
use std::process::ExitCode;

// ---- a serializer that records what it is asked to serialise

#[derive(Debug, PartialEq, Clone)]
enum Rec {
    Str(String),
    Other(&'static str),
}

/// records the one call a value makes on the serializer; `.0` is what `is_human_readable()` answers
struct Recorder(bool);

#[derive(Debug)]
struct RecErr(String);
impl std::fmt::Display for RecErr {
    fn fmt(&self, f: &mut std::fmt::Formatter<'_>) -> std::fmt::Result {
        f.write_str(&self.0)
    }
}
impl std::error::Error for RecErr {}
impl serde::ser::Error for RecErr {
    fn custom<T: std::fmt::Display>(msg: T) -> Self {
        RecErr(msg.to_string())
    }
}

macro_rules! other {
    ($($name:ident($t:ty)),*) => {$(
        fn $name(self, _v: $t) -> Result<Rec, RecErr> { Ok(Rec::Other(stringify!($name))) }
    )*};
}

impl serde::Serializer for Recorder {
    type Ok = Rec;
    type Error = RecErr;
    type SerializeSeq = serde::ser::Impossible<Rec, RecErr>;
    type SerializeTuple = serde::ser::Impossible<Rec, RecErr>;
    type SerializeTupleStruct = serde::ser::Impossible<Rec, RecErr>;
    type SerializeTupleVariant = serde::ser::Impossible<Rec, RecErr>;
    type SerializeMap = serde::ser::Impossible<Rec, RecErr>;
    type SerializeStruct = serde::ser::Impossible<Rec, RecErr>;
    type SerializeStructVariant = serde::ser::Impossible<Rec, RecErr>;
    fn serialize_str(self, v: &str) -> Result<Rec, RecErr> {
        Ok(Rec::Str(v.to_string()))
    }
    fn is_human_readable(&self) -> bool {
        self.0
    }
    // a serializer may treat `collect_str` differently from `serialize_str` (the default forwards): String never
    // calls it
    fn collect_str<T: ?Sized + std::fmt::Display>(self, _value: &T) -> Result<Rec, RecErr> {
        Ok(Rec::Other("collect_str"))
    }
    other!(serialize_bool(bool), serialize_i8(i8), serialize_i16(i16), serialize_i32(i32), serialize_i64(i64), serialize_u8(u8), serialize_u16(u16),
        serialize_u32(u32), serialize_u64(u64), serialize_f32(f32), serialize_f64(f64), serialize_char(char), serialize_bytes(&[u8]));
    fn serialize_none(self) -> Result<Rec, RecErr> {
        Ok(Rec::Other("none"))
    }
    fn serialize_some<T: ?Sized + Serialize>(self, _: &T) -> Result<Rec, RecErr> {
        Ok(Rec::Other("some"))
    }
    fn serialize_unit(self) -> Result<Rec, RecErr> {
        Ok(Rec::Other("unit"))
    }
    fn serialize_unit_struct(self, _: &'static str) -> Result<Rec, RecErr> {
        Ok(Rec::Other("unit_struct"))
    }
    fn serialize_unit_variant(self, _: &'static str, _: u32, _: &'static str) -> Result<Rec, RecErr> {
        Ok(Rec::Other("unit_variant"))
    }
    fn serialize_newtype_struct<T: ?Sized + Serialize>(self, _: &'static str, _: &T) -> Result<Rec, RecErr> {
        Ok(Rec::Other("newtype_struct"))
    }
    fn serialize_newtype_variant<T: ?Sized + Serialize>(self, _: &'static str, _: u32, _: &'static str, _: &T) -> Result<Rec, RecErr> {
        Ok(Rec::Other("newtype_variant"))
    }
    fn serialize_seq(self, _: Option<usize>) -> Result<Self::SerializeSeq, RecErr> {
        Err(RecErr("seq".into()))
    }
    fn serialize_tuple(self, _: usize) -> Result<Self::SerializeTuple, RecErr> {
        Err(RecErr("tuple".into()))
    }
    fn serialize_tuple_struct(self, _: &'static str, _: usize) -> Result<Self::SerializeTupleStruct, RecErr> {
        Err(RecErr("tuple_struct".into()))
    }
    fn serialize_tuple_variant(self, _: &'static str, _: u32, _: &'static str, _: usize) -> Result<Self::SerializeTupleVariant, RecErr> {
        Err(RecErr("tuple_variant".into()))
    }
    fn serialize_map(self, _: Option<usize>) -> Result<Self::SerializeMap, RecErr> {
        Err(RecErr("map".into()))
    }
    fn serialize_struct(self, _: &'static str, _: usize) -> Result<Self::SerializeStruct, RecErr> {
        Err(RecErr("struct".into()))
    }
    fn serialize_struct_variant(self, _: &'static str, _: u32, _: &'static str, _: usize) -> Result<Self::SerializeStructVariant, RecErr> {
        Err(RecErr("struct_variant".into()))
    }
}

#[derive(Serialize, Deserialize, PartialEq, Debug)]
struct WrapL {
    a: LeanString,
    b: Vec<LeanString>,
    c: Option<LeanString>,
}
#[derive(Serialize, Deserialize, PartialEq, Debug)]
struct WrapS {
    a: String,
    b: Vec<String>,
    c: Option<String>,
}

fn guard(f: impl FnOnce() -> Result<(), String>) -> Result<(), String> {
    match std::panic::catch_unwind(std::panic::AssertUnwindSafe(f)) {
        Ok(r) => r,
        Err(p) => {
            let msg = p.downcast_ref::<String>().cloned().or_else(|| p.downcast_ref::<&str>().map(|s| s.to_string())).unwrap_or_else(|| "panic".into());
            Err(format!("panicked: {msg}"))
        }
    }
}

fn check_text(t: &str) -> Result<(), String> {
    guard(|| {
        let lean = LeanString::from(t);
        let string = t.to_string();
        // serialisation
        let jl = serde_json::to_string(&lean).map_err(|e| format!("to_string(LeanString) failed: {e}"))?;
        let js = serde_json::to_string(&string).unwrap();
        if jl != js {
            return Err(format!("serde_json::to_string: LeanString {jl}, String {js}"));
        }
        for human in [true, false] {
            let rec = lean.serialize(Recorder(human)).map_err(|e| e.to_string())?;
            let want = string.serialize(Recorder(human)).map_err(|e| e.to_string())?;
            if rec != want || rec != Rec::Str(string.clone()) {
                return Err(format!("Serialize (is_human_readable = {human}) called {rec:?}; String calls {want:?}"));
            }
        }
        // a truncated shared handle serialises its own text
        let mut longer = LeanString::from(format!("{t}\"tail").as_str());
        let keep = longer.clone();
        longer.truncate(t.len());
        if serde_json::to_string(&longer).unwrap() != js || serde_json::to_value(&longer).unwrap() != Value::String(string.clone()) {
            return Err(format!("a shared, truncated handle of {t:?} serialises differently"));
        }
        drop(keep);
        // deserialisation through serde_json and the value deserializers
        let back: LeanString = serde_json::from_str(&js).map_err(|e| format!("from_str({js}) failed: {e}"))?;
        if back != t {
            return Err(format!("serde_json round trip of {t:?} gives {:?}", back.as_str()));
        }
        let v: LeanString = serde_json::from_value(Value::String(string.clone())).map_err(|e| e.to_string())?;
        if v != t {
            return Err(format!("from_value of {t:?} gives {:?}", v.as_str()));
        }
        let d1: Result<LeanString, ValueError> = LeanString::deserialize(StrDeserializer::new(t));
        let d2: Result<LeanString, ValueError> = LeanString::deserialize(BorrowedStrDeserializer::new(t));
        let d3: Result<LeanString, ValueError> = LeanString::deserialize(StringDeserializer::new(string.clone()));
        for (name, d) in [("str", d1), ("borrowed str", d2), ("String", d3)] {
            match d {
                Ok(x) if x == t => {}
                other => return Err(format!("deserialize from {name} of {t:?} gives {other:?}")),
            }
        }
        // inside containers
        let wl = WrapL { a: lean.clone(), b: vec![lean.clone(), LeanString::new()], c: Some(lean.clone()) };
        let ws = WrapS { a: string.clone(), b: vec![string.clone(), String::new()], c: Some(string.clone()) };
        let j1 = serde_json::to_string(&wl).unwrap();
        if j1 != serde_json::to_string(&ws).unwrap() {
            return Err(format!("struct containing {t:?} serialises differently"));
        }
        let wl2: WrapL = serde_json::from_str(&j1).map_err(|e| e.to_string())?;
        if wl2 != wl {
            return Err(format!("struct containing {t:?} does not round-trip"));
        }
        check_refusal(t)?;
        Ok(())
    })
}

/// `Deserialize::deserialize_in_place` (used by derived impls) must leave exactly the input text in the place,
/// whatever the place held before and however it was stored.
fn check_in_place(t: &str, bytes: Option<&[u8]>) -> Result<(), String> {
    guard(|| {
        let long_static: &'static str = "a static text that is longer than sixteen bytes";
        let shared = LeanString::from("a heap text shared with another handle, 48 bytes");
        let places: Vec<(&str, LeanString)> = vec![
            ("empty", LeanString::new()),
            ("inline", LeanString::from("old")),
            ("full inline", LeanString::from("0123456789abcdef")),
            ("heap", LeanString::from("an old heap text of more than 16 bytes")),
            ("heap with room", {
                let mut s = LeanString::with_capacity(200);
                s.push_str("old text");
                s
            }),
            ("shared heap", shared.clone()),
            ("static", LeanString::from_static_str(long_static)),
        ];
        for (name, mut place) in places {
            let mut reference = String::from("old String");
            let (got, want): (Result<(), ValueError>, Result<(), ValueError>) = match bytes {
                Some(b) => (
                    Deserialize::deserialize_in_place(BytesDeserializer::new(b), &mut place),
                    Deserialize::deserialize_in_place(BytesDeserializer::new(b), &mut reference),
                ),
                None => (
                    Deserialize::deserialize_in_place(StrDeserializer::new(t), &mut place),
                    Deserialize::deserialize_in_place(StrDeserializer::new(t), &mut reference),
                ),
            };
            match (got, want) {
                (Ok(()), Ok(())) if place == reference.as_str() => {}
                (Err(_), Err(_)) => {}
                (g, w) => {
                    return Err(format!(
                        "deserialize_in_place into a place holding {name}: LeanString {:?} -> {:?}, String {:?} -> {:?}",
                        g.map_err(|e| e.to_string()),
                        place.as_str(),
                        w.map_err(|e| e.to_string()),
                        reference
                    ));
                }
            }
        }
        if shared != "a heap text shared with another handle, 48 bytes" {
            return Err("deserialize_in_place into a shared handle changed the other handle".into());
        }
        Ok(())
    })
}

/// A deserializer that feeds the visitor through one chosen entry point, so that every `visit_*` a format may
/// call is compared with String's behaviour (owned and borrowed str and bytes, and non-string inputs).
#[derive(Clone, Copy, Debug)]
enum Feed<'a> {
    Str(&'a str),
    BorrowedStr(&'a str),
    String(&'a str),
    Bytes(&'a [u8]),
    BorrowedBytes(&'a [u8]),
    ByteBuf(&'a [u8]),
    Char(char),
    U64(u64),
    Bool(bool),
    Unit,
    None,
    F64(f64),
}

impl<'de> serde::Deserializer<'de> for Feed<'de> {
    type Error = ValueError;
    fn deserialize_any<V: serde::de::Visitor<'de>>(self, v: V) -> Result<V::Value, ValueError> {
        match self {
            Feed::Str(s) => v.visit_str(s),
            Feed::BorrowedStr(s) => v.visit_borrowed_str(s),
            Feed::String(s) => v.visit_string(s.to_string()),
            Feed::Bytes(b) => v.visit_bytes(b),
            Feed::BorrowedBytes(b) => v.visit_borrowed_bytes(b),
            Feed::ByteBuf(b) => v.visit_byte_buf(b.to_vec()),
            Feed::Char(c) => v.visit_char(c),
            Feed::U64(n) => v.visit_u64(n),
            Feed::Bool(b) => v.visit_bool(b),
            Feed::Unit => v.visit_unit(),
            Feed::None => v.visit_none(),
            Feed::F64(x) => v.visit_f64(x),
        }
    }
    serde::forward_to_deserialize_any! {
        bool i8 i16 i32 i64 i128 u8 u16 u32 u64 u128 f32 f64 char str string bytes byte_buf option unit unit_struct
        newtype_struct seq tuple tuple_struct map struct enum identifier ignored_any
    }
}

/// The same feeds from a format that says it is not human readable (a binary format).
#[derive(Clone, Copy, Debug)]
struct Binary<'a>(Feed<'a>);

impl<'de> serde::Deserializer<'de> for Binary<'de> {
    type Error = ValueError;
    fn deserialize_any<V: serde::de::Visitor<'de>>(self, v: V) -> Result<V::Value, ValueError> {
        self.0.deserialize_any(v)
    }
    fn is_human_readable(&self) -> bool {
        false
    }
    serde::forward_to_deserialize_any! {
        bool i8 i16 i32 i64 i128 u8 u16 u32 u64 u128 f32 f64 char str string bytes byte_buf option unit unit_struct
        newtype_struct seq tuple tuple_struct map struct enum identifier ignored_any
    }
}

/// A format that is not self-describing (like bincode): `deserialize_any` is an error, only the requested kind is
/// served. String asks for `deserialize_string`; a transparent wrapper must ask for a string as well.
#[derive(Clone, Copy, Debug)]
struct Strict<'a>(&'a str, bool);

impl<'de> serde::Deserializer<'de> for Strict<'de> {
    type Error = ValueError;
    fn deserialize_any<V: serde::de::Visitor<'de>>(self, _: V) -> Result<V::Value, ValueError> {
        Err(serde::de::Error::custom("this format is not self-describing"))
    }
    fn deserialize_str<V: serde::de::Visitor<'de>>(self, v: V) -> Result<V::Value, ValueError> {
        if self.1 { v.visit_borrowed_str(self.0) } else { v.visit_str(self.0) }
    }
    fn deserialize_string<V: serde::de::Visitor<'de>>(self, v: V) -> Result<V::Value, ValueError> {
        if self.1 { v.visit_string(self.0.to_string()) } else { v.visit_str(self.0) }
    }
    fn deserialize_bytes<V: serde::de::Visitor<'de>>(self, v: V) -> Result<V::Value, ValueError> {
        v.visit_bytes(self.0.as_bytes())
    }
    fn deserialize_byte_buf<V: serde::de::Visitor<'de>>(self, v: V) -> Result<V::Value, ValueError> {
        v.visit_byte_buf(self.0.as_bytes().to_vec())
    }
    serde::forward_to_deserialize_any! {
        bool i8 i16 i32 i64 i128 u8 u16 u32 u64 u128 f32 f64 char option unit unit_struct
        newtype_struct seq tuple tuple_struct map struct enum identifier ignored_any
    }
}

fn check_feeds(t: &str, b: &[u8]) -> Result<(), String> {
    guard(|| {
        for owned in [false, true] {
            let l: Result<LeanString, ValueError> = LeanString::deserialize(Strict(t, owned));
            let s: Result<String, ValueError> = String::deserialize(Strict(t, owned));
            match (&l, &s) {
                (Ok(x), Ok(y)) if x == y => {}
                (Err(_), Err(_)) => {}
                _ => {
                    return Err(format!(
                        "a format that is not self-describing: LeanString {:?}, String {:?}",
                        l.map(|x| x.as_str().to_string()).map_err(|e| e.to_string()),
                        s.map_err(|e| e.to_string())
                    ));
                }
            }
        }
        Ok(())
    })?;
    guard(|| {
        let feeds = [
            Feed::Str(t),
            Feed::BorrowedStr(t),
            Feed::String(t),
            Feed::Bytes(b),
            Feed::BorrowedBytes(b),
            Feed::ByteBuf(b),
            Feed::Char(t.chars().next().unwrap_or('x')),
            Feed::U64(b.len() as u64),
            Feed::Bool(true),
            Feed::Unit,
            Feed::None,
            Feed::F64(1.5),
        ];
        for f in feeds {
            // ... and through a deserializer that is not human readable
            let lb: Result<LeanString, ValueError> = LeanString::deserialize(Binary(f));
            let sb: Result<String, ValueError> = String::deserialize(Binary(f));
            match (&lb, &sb) {
                (Ok(x), Ok(y)) if x == y => {}
                (Err(_), Err(_)) => {}
                _ => {
                    return Err(format!(
                        "deserialize through {f:?} of a format with is_human_readable() = false: LeanString {:?}, String {:?}",
                        lb.map(|x| x.as_str().to_string()).map_err(|e| e.to_string()),
                        sb.map_err(|e| e.to_string())
                    ));
                }
            }
            let l: Result<LeanString, ValueError> = LeanString::deserialize(f);
            let s: Result<String, ValueError> = String::deserialize(f);
            match (&l, &s) {
                (Ok(x), Ok(y)) if x == y => {}
                (Err(_), Err(_)) => {}
                _ => {
                    return Err(format!(
                        "deserialize through {f:?}: LeanString {:?}, String {:?}",
                        l.map(|x| x.as_str().to_string()).map_err(|e| e.to_string()),
                        s.map_err(|e| e.to_string())
                    ));
                }
            }
            let mut pl = LeanString::from("previous content of the place, longer than sixteen");
            let mut ps = String::from("previous content of the place, longer than sixteen");
            let rl: Result<(), ValueError> = Deserialize::deserialize_in_place(f, &mut pl);
            let rs: Result<(), ValueError> = Deserialize::deserialize_in_place(f, &mut ps);
            match (rl, rs) {
                (Ok(()), Ok(())) if pl == ps.as_str() => {}
                (Err(_), Err(_)) => {}
                (a, b2) => {
                    return Err(format!(
                        "deserialize_in_place through {f:?}: LeanString {:?} -> {:?}, String {:?} -> {ps:?}",
                        a.map_err(|e| e.to_string()),
                        pl.as_str(),
                        b2.map_err(|e| e.to_string())
                    ));
                }
            }
        }
        Ok(())
    })
}

fn check_json_doc(doc: &str) -> Result<(), String> {
    // any JSON text: LeanString and String accept / reject alike and agree on the text
    guard(|| {
        let a: Result<LeanString, _> = serde_json::from_str(doc);
        let b: Result<String, _> = serde_json::from_str(doc);
        match (a, b) {
            (Ok(x), Ok(y)) if x == y => Ok(()),
            (Err(_), Err(_)) => Ok(()),
            (x, y) => Err(format!("serde_json::from_str({doc:?}): LeanString {:?}, String {:?}", x.map(|v| v.as_str().to_string()).map_err(|e| e.to_string()), y.map_err(|e| e.to_string()))),
        }
    })
}

fn check_bytes(b: &[u8]) -> Result<(), String> {
    guard(|| {
        let want = std::str::from_utf8(b).ok();
        let l1: Result<LeanString, ValueError> = LeanString::deserialize(BytesDeserializer::new(b));
        let l2: Result<LeanString, ValueError> = LeanString::deserialize(BorrowedBytesDeserializer::new(b));
        let s1: Result<String, ValueError> = String::deserialize(BytesDeserializer::new(b));
        for (name, l) in [("bytes", &l1), ("borrowed bytes", &l2)] {
            match (l, want) {
                (Ok(x), Some(w)) if x == w => {}
                (Err(_), None) => {}
                _ => {
                    return Err(format!(
                        "deserialize from {name} {}: LeanString {:?}, expected {:?} (String: {:?})",
                        hex_encode(b),
                        l.as_ref().map(|x| x.as_str().to_string()).map_err(|e| e.to_string()),
                        want,
                        s1.as_ref().map_err(|e| e.to_string())
                    ));
                }
            }
        }
        // a non-string input is rejected like String rejects it
        let n: Result<LeanString, ValueError> = LeanString::deserialize(U32Deserializer::new(b.len() as u32));
        if n.is_ok() {
            return Err("a u32 input deserialised to a LeanString".into());
        }
        Ok(())
    })
}

// ---- allocator refusal for the integrations (the crate's allocator calls go through the verif-hooks table) ----
thread_local! {
    static REFUSE: std::cell::Cell<bool> = const { std::cell::Cell::new(false) };
    static REFUSED: std::cell::Cell<u64> = const { std::cell::Cell::new(0) };
}
unsafe fn rf_alloc(l: std::alloc::Layout) -> *mut u8 {
    if REFUSE.with(|c| c.get()) {
        REFUSED.with(|c| c.set(c.get() + 1));
        return std::ptr::null_mut();
    }
    unsafe { std::alloc::alloc(l) }
}
unsafe fn rf_realloc(p: *mut u8, l: std::alloc::Layout, n: usize) -> *mut u8 {
    if REFUSE.with(|c| c.get()) {
        REFUSED.with(|c| c.set(c.get() + 1));
        return std::ptr::null_mut();
    }
    unsafe { std::alloc::realloc(p, l, n) }
}
unsafe fn rf_dealloc(p: *mut u8, l: std::alloc::Layout) {
    unsafe { std::alloc::dealloc(p, l) }
}
fn rf_note(_: lean_string::verif_hooks::Note, _: *const u8, _: usize) {}
static RF_HOOKS: lean_string::verif_hooks::Hooks =
    lean_string::verif_hooks::Hooks { alloc: rf_alloc, realloc: rf_realloc, dealloc: rf_dealloc, note: rf_note };

/// Runs `f` with every allocator request of the crate refused. Ok(Some(x)): `f` produced x; Ok(None): it panicked or
/// reported an error (both are fine: nothing was yielded); the second component says whether a request was refused.
fn refused<T>(f: impl FnOnce() -> Option<T>) -> (Option<T>, bool) {
    let before = REFUSED.with(|c| c.get());
    REFUSE.with(|c| c.set(true));
    let r = std::panic::catch_unwind(std::panic::AssertUnwindSafe(f));
    REFUSE.with(|c| c.set(false));
    let hit = REFUSED.with(|c| c.get()) > before;
    (r.ok().flatten(), hit)
}

/// With the allocator refusing, an integration may fail (panic or error) but must not yield a different text.
fn check_refusal(t: &str) -> Result<(), String> {
    let (a, _) = refused(|| LeanString::arbitrary_take_rest(Unstructured::new(t.as_bytes())).ok());
    if let Some(x) = a {
        if x.as_str() != t {
            return Err(format!("allocator refusing: arbitrary_take_rest yields {:?} where <&str> yields {t:?}", x.as_str()));
        }
    }
    let (a, _) = refused(|| {
        let d: Result<LeanString, ValueError> = LeanString::deserialize(StrDeserializer::new(t));
        d.ok()
    });
    if let Some(x) = a {
        if x.as_str() != t {
            return Err(format!("allocator refusing: deserialised {:?} from the str {t:?}", x.as_str()));
        }
    }
    let (a, _) = refused(|| {
        let d: Result<LeanString, ValueError> = LeanString::deserialize(BytesDeserializer::new(t.as_bytes()));
        d.ok()
    });
    if let Some(x) = a {
        if x.as_str() != t {
            return Err(format!("allocator refusing: deserialised {:?} from the bytes of {t:?}", x.as_str()));
        }
    }
    Ok(())
}

fn check_unstructured(seed: &[u8]) -> Result<(), String> {
    guard(|| {
        let mut u1 = Unstructured::new(seed);
        let mut u2 = Unstructured::new(seed);
        for draw in 0..4 {
            let a = LeanString::arbitrary(&mut u1);
            let b = <&str as Arbitrary>::arbitrary(&mut u2);
            match (&a, &b) {
                (Ok(x), Ok(y)) if x.as_str() == *y => {}
                (Err(_), Err(_)) => {}
                _ => {
                    return Err(format!(
                        "draw {draw} from seed {}: LeanString::arbitrary {:?}, <&str>::arbitrary {:?}",
                        hex_encode(seed),
                        a.as_ref().map(|x| x.as_str().to_string()).map_err(|e| e.to_string()),
                        b.as_ref().map_err(|e| e.to_string())
                    ));
                }
            }
            if u1.len() != u2.len() {
                return Err(format!("draw {draw} from seed {}: {} bytes left vs {} for &str", hex_encode(seed), u1.len(), u2.len()));
            }
        }
        let a = LeanString::arbitrary_take_rest(Unstructured::new(seed));
        let b = <&str as Arbitrary>::arbitrary_take_rest(Unstructured::new(seed));
        match (&a, &b) {
            (Ok(x), Ok(y)) if x.as_str() == *y => {}
            (Err(_), Err(_)) => {}
            _ => return Err(format!("arbitrary_take_rest on seed {}: LeanString {:?}, &str {:?}", hex_encode(seed), a.map(|x| x.as_str().to_string()).map_err(|e| e.to_string()), b.map_err(|e| e.to_string()))),
        }
        for d in 0..4 {
            if <LeanString as Arbitrary>::size_hint(d) != <&str as Arbitrary>::size_hint(d) {
                return Err(format!("size_hint({d}) differs from <&str>::size_hint"));
            }
        }
        // the same draws with the crate's allocator refusing: no text, or the same text, never another one
        if let Ok(y) = <&str as Arbitrary>::arbitrary(&mut Unstructured::new(seed)) {
            let (a, _) = refused(|| LeanString::arbitrary(&mut Unstructured::new(seed)).ok());
            if let Some(x) = a {
                if x.as_str() != y {
                    return Err(format!("allocator refusing: arbitrary on seed {} yields {:?}, <&str>::arbitrary {y:?}", hex_encode(seed), x.as_str()));
                }
            }
        }
        if let Ok(y) = <&str as Arbitrary>::arbitrary_take_rest(Unstructured::new(seed)) {
            let (a, _) = refused(|| LeanString::arbitrary_take_rest(Unstructured::new(seed)).ok());
            if let Some(x) = a {
                if x.as_str() != y {
                    return Err(format!("allocator refusing: arbitrary_take_rest on seed {} yields {:?}, <&str> {y:?}", hex_encode(seed), x.as_str()));
                }
            }
        }
        Ok(())
    })
}

fn viol(case: Value, clause: &str, detail: String) -> Violation {
    Violation { case, clause: clause.into(), step: 0, detail }
}

fn escape_heavy() -> BoxedStrategy<String> {
    let atoms = vec!["\"", "\\", "\n", "\t", "\u{0}", "\u{1f}", "\u{7f}", "/", "\\u0041", "\\ud800", "\u{2028}", "é", "€", "𝄞", "a", "b", " ", "{", "}", "\u{feff}"];
    vec(select(atoms), 0..=24).prop_map(|v| v.concat()).boxed()
}

fn c19(tier: Tier, seed: u64) -> Verdict {
    let t0 = std::time::Instant::now();
    let mut merged = Merged::new();
    // (1) byte inputs: exhaustive to length 4 over the UTF-8 class alphabet
    let max_len = tier.pick(4usize, 5);
    let m = run_parallel(|shard| {
        let mut m = Merged::new();
        let mut buf = Vec::new();
        'o: for len in 0..=max_len {
            let total = (BYTE_ALPHA.len() as u64).pow(len as u32);
            let mut i = shard as u64;
            while i < total {
                buf.clear();
                let mut x = i;
                for _ in 0..len {
                    buf.push(BYTE_ALPHA[(x % BYTE_ALPHA.len() as u64) as usize]);
                    x /= BYTE_ALPHA.len() as u64;
                }
                m.evaluations += 1;
                if let Err(d) = check_bytes(&buf) {
                    m.violation = Some(viol(json!({"kind": "serde_bytes", "hex": hex_encode(&buf)}), "C19.deserialize_bytes", d));
                    break 'o;
                }
                if i % 11 == 0 {
                    // the same bytes behind a 15-byte ASCII prefix (crosses the inline limit) and as an Unstructured seed
                    let mut long = b"0123456789abcde".to_vec();
                    long.extend_from_slice(&buf);
                    m.evaluations += 2;
                    if let Err(d) = check_bytes(&long) {
                        m.violation = Some(viol(json!({"kind": "serde_bytes", "hex": hex_encode(&long)}), "C19.deserialize_bytes", d));
                        break 'o;
                    }
                    if let Err(d) = check_unstructured(&long) {
                        m.violation = Some(viol(json!({"kind": "unstructured", "hex": hex_encode(&long)}), "C19.arbitrary", d));
                        break 'o;
                    }
                }
                if std::str::from_utf8(&buf).is_err() || buf.iter().any(|b| *b >= 0x80) {
                    m.distinct.insert(digest(&buf));
                }
                i += SHARDS as u64;
            }
        }
        // long inputs: a valid (ASCII or multi-byte) prefix of every length up to 200 bytes in front of an invalid
        // or truncated sequence, and the same without the bad tail
        if m.violation.is_none() {
            let tails: [&[u8]; 5] = [b"\xff", b"\xe2\x82", b"\xf0\x9f\x98", b"", b"\xc3\xa9tail"];
            'l: for n in (0..=200usize).filter(|n| n % SHARDS == shard) {
                for fill in [&b"x"[..], "é".as_bytes(), "€".as_bytes(), "𝄞".as_bytes()] {
                    for tail in tails {
                        let mut b: Vec<u8> = Vec::new();
                        while b.len() + fill.len() <= n {
                            b.extend_from_slice(fill);
                        }
                        b.extend_from_slice(tail);
                        m.evaluations += 2;
                        if let Err(d) = check_bytes(&b) {
                            m.violation = Some(viol(json!({"kind": "serde_bytes", "hex": hex_encode(&b)}), "C19.deserialize_bytes", d));
                            break 'l;
                        }
                        if let Err(d) = check_unstructured(&b) {
                            m.violation = Some(viol(json!({"kind": "unstructured", "hex": hex_encode(&b)}), "C19.arbitrary", d));
                            break 'l;
                        }
                        m.distinct.insert(digest(&b));
                    }
                }
            }
        }
        if shard == 0 {
            m.samples.push(json!({"kind": "serde_bytes", "hex": "61e282"}));
            m.samples.push(json!({"kind": "unstructured", "hex": "6101"}));
        }
        m
    });
    merged.merge(m);
    // (2) texts
    if merged.violation.is_none() {
        let n = tier.pick(40_000, 600_000);
        let strat = || prop_oneof![2 => text_strategy(300), 2 => escape_heavy(), 1 => text_strategy(3000)].boxed();
        let m = run_sharded("C19", seed, 0, n, strat, |t: &String, _| {
            let mut st = CaseStats::default();
            st.evaluations = 1;
            if let Err(d) = check_text(t) {
                return (st, Some(viol(json!({"kind": "serde_text", "text": t}), "C19.serde_text", d)));
            }
            if let Err(d) = check_feeds(t, t.as_bytes()) {
                return (st, Some(viol(json!({"kind": "serde_text", "text": t}), "C19.visitor_entry_points", d)));
            }
            if let Err(d) = check_in_place(t, None) {
                return (st, Some(viol(json!({"kind": "serde_text", "text": t}), "C19.deserialize_in_place", d)));
            }
            if let Err(d) = check_in_place(t, Some(t.as_bytes())) {
                return (st, Some(viol(json!({"kind": "serde_text", "text": t}), "C19.deserialize_in_place", d)));
            }
            // the text itself, quoted or not, as a JSON document
            for doc in [format!("\"{t}\""), t.clone()] {
                if let Err(d) = check_json_doc(&doc) {
                    return (st, Some(viol(json!({"kind": "json_doc", "doc": doc}), "C19.deserialize_json", d)));
                }
            }
            if t.contains(['"', '\\', '\n', '\u{0}']) || !t.is_ascii() || t.len() > 16 {
                st.nontrivial.push(digest(t));
            }
            (st, None)
        });
        merged.merge(m);
    }
    // (3) Unstructured seeds and spliced byte inputs
    if merged.violation.is_none() {
        let n = tier.pick(150_000, 3_000_000);
        let strat = || prop_oneof![3 => vec(any::<u8>(), 0..=64), 2 => vec(select(BYTE_ALPHA.to_vec()), 0..=24), 1 => vec(select(vec![0x61u8, 0x00, 0x01, 0x10, 0x11, 0xff, 0xc3, 0xa9]), 0..=20)].boxed();
        let m = run_sharded("C19", seed, 1, n, strat, |b: &Vec<u8>, _| {
            let mut st = CaseStats::default();
            st.evaluations = 2;
            if let Err(d) = check_unstructured(b) {
                return (st, Some(viol(json!({"kind": "unstructured", "hex": hex_encode(b)}), "C19.arbitrary", d)));
            }
            if let Err(d) = check_bytes(b) {
                return (st, Some(viol(json!({"kind": "serde_bytes", "hex": hex_encode(b)}), "C19.deserialize_bytes", d)));
            }
            if let Err(d) = check_feeds(&String::from_utf8_lossy(b), b) {
                return (st, Some(viol(json!({"kind": "serde_bytes", "hex": hex_encode(b)}), "C19.visitor_entry_points", d)));
            }
            if b.len() < 24 {
                if let Err(d) = check_in_place("", Some(b)) {
                    return (st, Some(viol(json!({"kind": "serde_bytes", "hex": hex_encode(b)}), "C19.deserialize_in_place", d)));
                }
            }
            st.nontrivial.push(digest(b));
            if b.len() < 2 {
                st.classes.push("seed_shorter_than_2".into());
            }
            (st, None)
        });
        merged.merge(m);
    }
    // (4) long inputs: a multi-byte character or an invalid fragment straddling every power-of-two offset a
    // block-wise validator could cut at (256 ... 64 Ki), as text, as bytes and as Unstructured seed
    if merged.violation.is_none() {
        let tails: [&[u8]; 6] = [b"\xf0\x9d\x84\x9e", b"\xe2\x82\xac", b"\xff", b"\xf0\x9d\x84", b"\xc3\xa9", b"\xed\xa0\x80"];
        let mut m = Merged::new();
        'l: for k in 8..=16u32 {
            for back in 0..=4usize {
                for tail in tails.iter() {
                    let mut b: Vec<u8> = vec![b'x'; (1usize << k) - back];
                    b.extend_from_slice(tail);
                    b.extend_from_slice(&vec![b'y'; 40 + (1 << k) / 3]);
                    m.evaluations += 3;
                    let r = check_bytes(&b)
                        .and_then(|_| check_feeds(&String::from_utf8_lossy(&b), &b))
                        .map_err(|d| ("C19.deserialize_bytes", d))
                        .and_then(|_| check_unstructured(&b).map_err(|d| ("C19.arbitrary", d)))
                        .and_then(|_| match std::str::from_utf8(&b) {
                            Ok(t) => check_text(t).map_err(|d| ("C19.serde_text", d)),
                            Err(_) => Ok(()),
                        });
                    if let Err((clause, d)) = r {
                        m.violation = Some(viol(json!({"kind": "serde_bytes", "hex": hex_encode(&b)}), clause, d));
                        break 'l;
                    }
                    m.distinct.insert(digest(&(k, back, tail.len())));
                }
            }
        }
        merged.merge(m);
    }
    finish(
        "C19",
        tier,
        seed,
        "exploration",
        "serde: proptest texts (lengths around 16, multi-byte) and escape-heavy texts (quotes, backslashes, control characters, \\u escapes incl. lone surrogates) serialised through serde_json and a recording Serializer (exactly one serialize_str) incl. shared truncated handles and container structs, deserialised through serde_json::from_str / from_value and serde::de::value Str, BorrowedStr, String, Bytes, BorrowedBytes, U32 deserializers, differential against String and str::from_utf8; byte inputs: every sequence of length <= 4 (thorough 5) over the 21-symbol UTF-8 class alphabet, one in 11 also behind a 15-byte prefix; arbitrary: LeanString::arbitrary (4 consecutive draws, bytes left), arbitrary_take_rest and size_hint against <&str> on the same Unstructured seeds (random, class alphabet, length-marker-heavy), lengths 0..64; long inputs (a multi-byte character or invalid fragment straddling every power-of-two offset 256 ... 64 Ki) as bytes, text and seed; non-trivial = invalid UTF-8 or multi-byte input, texts needing escapes, every seed; distinct inputs",
        &["64-bit target; lean_string built with features serde, arbitrary, verif-hooks", "oracle: String / &str implementations of serde 1.0 and arbitrary 1.4 on the same input"],
        &merged,
        t0.elapsed().as_secs_f64(),
        "lsv-features",
    )
}

fn replay(path: &str) -> i32 {
    let Ok(bytes) = std::fs::read(path) else { return 2 };
    let Ok(doc) = serde_json::from_slice::<Value>(&bytes) else { return 2 };
    let case = doc.get("case").cloned().unwrap_or(doc);
    let kind = case.get("kind").and_then(|k| k.as_str()).unwrap_or("");
    let r = match kind {
        "serde_bytes" => {
            let b = hex_decode(case["hex"].as_str().unwrap_or(""));
            check_bytes(&b).and_then(|_| check_in_place("", Some(&b))).and_then(|_| check_feeds(&String::from_utf8_lossy(&b), &b))
        }
        "unstructured" => check_unstructured(&hex_decode(case["hex"].as_str().unwrap_or(""))),
        "serde_text" => {
            let t = case["text"].as_str().unwrap_or("");
            check_text(t).and_then(|_| check_in_place(t, None)).and_then(|_| check_in_place(t, Some(t.as_bytes()))).and_then(|_| check_feeds(t, t.as_bytes()))
        }
        "json_doc" => check_json_doc(case["doc"].as_str().unwrap_or("")),
        "crash_run" => {
            let exe = std::env::current_exe().expect("current_exe");
            let tier = case["tier"].as_str().unwrap_or("quick").to_string();
            let seed = case["seed"].as_u64().unwrap_or(0).to_string();
            match std::process::Command::new(&exe).args(["run", &tier]).env("VERIF_SEED", seed).stdout(std::process::Stdio::null()).status() {
                Ok(st) if st.code().is_none() => Err("the engine died on a signal again".to_string()),
                Ok(_) => Ok(()),
                Err(e) => return { eprintln!("cannot spawn engine: {e}"); 2 },
            }
        }
        _ => return 2,
    };
    match r {
        Ok(()) => {
            println!("OK replay: property C19 holds on this case");
            0
        }
        Err(d) => {
            println!("{d}");
            println!("VIOLATION property=C19 replay={path}");
            1
        }
    }
}

fn main() -> ExitCode {
    let args: Vec<String> = std::env::args().collect();
    let seed: u64 = std::env::var("VERIF_SEED").ok().and_then(|s| s.parse().ok()).unwrap_or(0);
    lsv_core::outcome::silence_panics();
    lean_string::verif_hooks::install(&RF_HOOKS);
    match args.get(1).map(|s| s.as_str()) {
        Some("run") => {
            let tier = if args.iter().any(|a| a == "thorough") { Tier::Thorough } else { Tier::Quick };
            ExitCode::from(c19(tier, seed).exit_code as u8)
        }
        // supervisor: the engine runs in a child; if it dies on a signal (memory fault, abort) that is a finding about
        // the integrations (a value that cannot even be read or dropped), reproduced by re-running the same seeded run
        Some("check") => {
            let tier = if args.iter().any(|a| a == "thorough") { "thorough" } else { "quick" };
            let exe = std::env::current_exe().expect("current_exe");
            match std::process::Command::new(&exe).args(["run", tier]).status() {
                Ok(st) => match st.code() {
                    Some(c) => ExitCode::from(c as u8),
                    None => {
                        let mut merged = lsv_core::runner::Merged::new();
                        merged.evaluations = 1;
                        merged.violation = Some(viol(
                            json!({"kind": "crash_run", "tier": tier, "seed": seed}),
                            "C19.crash",
                            "the engine died on a signal (memory fault or abort) during this seeded run of the serde / arbitrary checks".into(),
                        ));
                        let t = if tier == "thorough" { Tier::Thorough } else { Tier::Quick };
                        let v = lsv_core::runner::finish("C19", t, seed, "exploration", "crash of the engine process", &[], &merged, 0.0, "lsv-features");
                        ExitCode::from(v.exit_code as u8)
                    }
                },
                Err(e) => {
                    eprintln!("cannot spawn engine: {e}");
                    ExitCode::from(2)
                }
            }
        }
        Some("replay") => ExitCode::from(replay(&args[2]) as u8),
        _ => ExitCode::from(2),
    }
}
