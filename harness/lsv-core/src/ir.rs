//! Intermediate representation of histories: the replay format.

use serde::{Deserialize, Serialize};

pub const SLOTS: usize = 6;
pub type Slot = u8;

/// A text argument. `Fill` is resolved at execution time against the target's state so that the
/// result lands exactly at `capacity + delta` bytes.
#[derive(Clone, Debug, PartialEq, Eq, Hash, Serialize, Deserialize)]
#[serde(rename_all = "snake_case")]
pub enum Text {
    Lit(String),
    /// text of byte length `capacity - len + delta` (clamped to 0..=8192) made of `unit` (ASCII)
    Fill { delta: i16, unit: char },
    /// like `Fill` with delta 0, for rooms of up to 64 MiB (`Fill` stops at 8 KiB)
    FillAll { unit: char },
    /// `unit` repeated `n` times (large texts without large replay files)
    Repeat { n: usize, unit: char },
}

/// A byte index argument.
#[derive(Clone, Copy, Debug, PartialEq, Eq, Hash, Serialize, Deserialize)]
#[serde(rename_all = "snake_case")]
pub enum Idx {
    Raw(usize),
    /// k-th char boundary, scaled: `k * (boundaries) >> 16`
    Boundary(u16),
    /// len + d
    LenPlus(i8),
}

/// A size argument (capacity, additional, min_capacity).
#[derive(Clone, Copy, Debug, PartialEq, Eq, Hash, Serialize, Deserialize)]
#[serde(rename_all = "snake_case")]
pub enum Size {
    Abs(usize),
    /// capacity + d (saturating at 0)
    CapPlus(i16),
    /// len + d
    LenPlus(i16),
    /// capacity - len + d : an `additional` that lands d bytes from the current capacity
    RoomPlus(i16),
    /// usize::MAX - len - d
    MaxMinusLenMinus(u8),
}

#[derive(Clone, Copy, Debug, PartialEq, Eq, Hash, Serialize, Deserialize)]
#[serde(rename_all = "snake_case")]
pub enum Via {
    Str,
    String,
    RefString,
    BoxStr,
    CowB,
    CowO,
    Parse,
    Utf8,
    Utf8Unchecked,
    ToLeanString,
    ToLeanStr,
    ToLeanCow,
    ToLeanBox,
    /// `String::try_to_lean_string` (the fallible form of the &String arm)
    TryToLeanString,
}

#[derive(Clone, Copy, Debug, PartialEq, Eq, Hash, Serialize, Deserialize)]
#[serde(rename_all = "snake_case")]
pub enum CharVia {
    From,
    ToLean,
    TryToLean,
}

#[derive(Clone, Copy, Debug, PartialEq, Eq, Hash, Serialize, Deserialize)]
#[serde(rename_all = "snake_case")]
pub enum CloneVia {
    Clone,
    FromRef,
    ToLean,
    TryToLean,
}

#[derive(Clone, Copy, Debug, PartialEq, Eq, Hash, Serialize, Deserialize)]
#[serde(rename_all = "snake_case")]
pub enum IntTy {
    I8,
    U8,
    I16,
    U16,
    I32,
    U32,
    I64,
    U64,
    I128,
    U128,
    Isize,
    Usize,
}

#[derive(Clone, Copy, Debug, PartialEq, Eq, Hash, Serialize, Deserialize)]
#[serde(rename_all = "snake_case")]
pub enum IterKind {
    Char,
    RefChar,
    Str,
    String,
    BoxStr,
    CowB,
    CowO,
    Lean,
    /// LeanString items that are clones of the slots listed in `slots`
    LeanSlots,
}

/// A side effect of a user callback on ANOTHER handle: at its `at`-th invocation the callback drops the handle in
/// `slot`, or makes one more clone of it (kept until the operation returns). Legal for any user closure that owns
/// or shares those handles; it changes reference counts in the middle of the operation.
#[derive(Clone, Copy, Debug, PartialEq, Eq, Hash, Serialize, Deserialize)]
pub struct Fx {
    pub at: u16,
    pub slot: Slot,
    pub drop: bool,
}

#[derive(Clone, Debug, PartialEq, Eq, Hash, Serialize, Deserialize)]
pub struct IterSpec {
    pub kind: IterKind,
    /// items; for the char kinds the characters of all items, in order
    pub items: Vec<String>,
    #[serde(default, skip_serializing_if = "Vec::is_empty")]
    pub slots: Vec<Slot>,
    /// lying lower bound of size_hint (None: honest)
    #[serde(default, skip_serializing_if = "Option::is_none")]
    pub hint: Option<usize>,
    /// the iterator panics when asked for item number `panic_at` (0-based)
    #[serde(default, skip_serializing_if = "Option::is_none")]
    pub panic_at: Option<u16>,
    /// an honest but inexact size hint, like `filter` gives: (0, Some(remaining + slack))
    #[serde(default, skip_serializing_if = "Option::is_none")]
    pub loose: Option<u16>,
    #[serde(default, skip_serializing_if = "Option::is_none")]
    pub fx: Option<Fx>,
    /// lying UPPER bound of size_hint (None: honest): the iterator may well yield more items than it announces
    #[serde(default, skip_serializing_if = "Option::is_none")]
    pub upper: Option<usize>,
}

#[derive(Clone, Debug, PartialEq, Eq, Hash, Serialize, Deserialize)]
pub struct Pieces {
    pub pieces: Vec<String>,
    /// Display::fmt returns Err before writing piece `err_at`
    #[serde(default, skip_serializing_if = "Option::is_none")]
    pub err_at: Option<u16>,
    /// Display::fmt panics before writing piece `panic_at`
    #[serde(default, skip_serializing_if = "Option::is_none")]
    pub panic_at: Option<u16>,
    #[serde(default, skip_serializing_if = "Option::is_none")]
    pub fx: Option<Fx>,
}

#[derive(Clone, Copy, Debug, PartialEq, Eq, Hash, Serialize, Deserialize)]
pub struct RetainSpec {
    /// bit (i mod 64) set: keep the i-th character
    pub mask: u64,
    /// predicate panics at its `panic_at`-th invocation (0-based)
    #[serde(default, skip_serializing_if = "Option::is_none")]
    pub panic_at: Option<u16>,
    #[serde(default, skip_serializing_if = "Option::is_none")]
    pub fx: Option<Fx>,
}

#[derive(Clone, Debug, PartialEq, Eq, Hash, Serialize, Deserialize)]
#[serde(tag = "op", rename_all = "snake_case")]
pub enum Op {
    // ---- constructors (assign into `slot`, dropping what was there)
    New { slot: Slot },
    Default { slot: Slot },
    FromText { slot: Slot, via: Via, text: String },
    FromChar { slot: Slot, ch: char, via: CharVia },
    FromBool { slot: Slot, v: bool, try_: bool },
    FromInt { slot: Slot, ty: IntTy, nonzero: bool, v: String, try_: bool },
    FromStatic { slot: Slot, k: u16 },
    WithCapacity { slot: Slot, n: Size, try_: bool },
    FromUtf8Lossy { slot: Slot, hex: String },
    FromUtf16 { slot: Slot, units: Vec<u16>, lossy: bool },
    Collect { slot: Slot, it: IterSpec },
    Display { slot: Slot, d: Pieces, try_: bool },
    Clone { slot: Slot, from: Slot, via: CloneVia },
    // ---- handle operations
    Drop { slot: Slot },
    CloneFrom { slot: Slot, from: Slot },
    Take { slot: Slot, from: Slot },
    Swap { a: Slot, b: Slot },
    OptionRoundTrip { slot: Slot },
    Add { slot: Slot, text: Text },
    // ---- mutators
    Push { slot: Slot, ch: char, try_: bool },
    PushStr { slot: Slot, text: Text, try_: bool },
    Pop { slot: Slot, try_: bool },
    Remove { slot: Slot, idx: Idx, try_: bool },
    Insert { slot: Slot, idx: Idx, ch: char, try_: bool },
    InsertStr { slot: Slot, idx: Idx, text: Text, try_: bool },
    Truncate { slot: Slot, n: Idx, try_: bool },
    Clear { slot: Slot },
    Retain { slot: Slot, r: RetainSpec, try_: bool },
    Reserve { slot: Slot, n: Size, try_: bool },
    ShrinkTo { slot: Slot, n: Size, try_: bool },
    ShrinkToFit { slot: Slot, try_: bool },
    Extend { slot: Slot, it: IterSpec },
    AddAssign { slot: Slot, text: Text },
    Write { slot: Slot, d: Pieces },
    /// write!(slot, <format spec number `spec`>, other handle): a LeanString as a formatting argument
    WriteArg { slot: Slot, from: Slot, spec: u8 },
    // ---- readers
    Compare { a: Slot, b: Slot },
}

impl Op {
    pub fn name(&self) -> &'static str {
        match self {
            Op::New { .. } => "new",
            Op::Default { .. } => "default",
            Op::FromText { .. } => "from_text",
            Op::FromChar { .. } => "from_char",
            Op::FromBool { .. } => "from_bool",
            Op::FromInt { .. } => "from_int",
            Op::FromStatic { .. } => "from_static",
            Op::WithCapacity { .. } => "with_capacity",
            Op::FromUtf8Lossy { .. } => "from_utf8_lossy",
            Op::FromUtf16 { .. } => "from_utf16",
            Op::Collect { .. } => "collect",
            Op::Display { .. } => "display",
            Op::Clone { .. } => "clone",
            Op::Drop { .. } => "drop",
            Op::CloneFrom { .. } => "clone_from",
            Op::Take { .. } => "take",
            Op::Swap { .. } => "swap",
            Op::OptionRoundTrip { .. } => "option_round_trip",
            Op::Add { .. } => "add",
            Op::Push { .. } => "push",
            Op::PushStr { .. } => "push_str",
            Op::Pop { .. } => "pop",
            Op::Remove { .. } => "remove",
            Op::Insert { .. } => "insert",
            Op::InsertStr { .. } => "insert_str",
            Op::Truncate { .. } => "truncate",
            Op::Clear { .. } => "clear",
            Op::Retain { .. } => "retain",
            Op::Reserve { .. } => "reserve",
            Op::ShrinkTo { .. } => "shrink_to",
            Op::ShrinkToFit { .. } => "shrink_to_fit",
            Op::Extend { .. } => "extend",
            Op::AddAssign { .. } => "add_assign",
            Op::Write { .. } => "write",
            Op::WriteArg { .. } => "write_arg",
            Op::Compare { .. } => "compare",
        }
    }

    /// slots whose value the operation is allowed to change
    pub fn targets(&self) -> Vec<Slot> {
        match *self {
            Op::New { slot }
            | Op::Default { slot }
            | Op::FromText { slot, .. }
            | Op::FromChar { slot, .. }
            | Op::FromBool { slot, .. }
            | Op::FromInt { slot, .. }
            | Op::FromStatic { slot, .. }
            | Op::WithCapacity { slot, .. }
            | Op::FromUtf8Lossy { slot, .. }
            | Op::FromUtf16 { slot, .. }
            | Op::Collect { slot, .. }
            | Op::Display { slot, .. }
            | Op::Clone { slot, .. }
            | Op::Drop { slot }
            | Op::CloneFrom { slot, .. }
            | Op::OptionRoundTrip { slot }
            | Op::Add { slot, .. }
            | Op::Push { slot, .. }
            | Op::PushStr { slot, .. }
            | Op::Pop { slot, .. }
            | Op::Remove { slot, .. }
            | Op::Insert { slot, .. }
            | Op::InsertStr { slot, .. }
            | Op::Truncate { slot, .. }
            | Op::Clear { slot }
            | Op::Retain { slot, .. }
            | Op::Reserve { slot, .. }
            | Op::ShrinkTo { slot, .. }
            | Op::ShrinkToFit { slot, .. }
            | Op::Extend { slot, .. }
            | Op::AddAssign { slot, .. }
            | Op::Write { slot, .. }
            | Op::WriteArg { slot, .. } => vec![slot],
            Op::Take { slot, from } => vec![slot, from],
            Op::Swap { a, b } => vec![a, b],
            Op::Compare { .. } => vec![],
        }
    }

    /// first target slot, without allocating
    /// every slot the operation reads or writes (targets, sources, slots whose clones it consumes)
    pub fn touches(&self) -> Vec<Slot> {
        let mut v = self.targets();
        match self {
            Op::Clone { from, .. } | Op::CloneFrom { from, .. } | Op::Take { from, .. } | Op::WriteArg { from, .. } => v.push(*from),
            Op::Swap { a, b } | Op::Compare { a, b } => {
                v.push(*a);
                v.push(*b);
            }
            Op::Extend { it, .. } | Op::Collect { it, .. } => v.extend(it.slots.iter().copied()),
            _ => {}
        }
        v
    }

    pub fn first_target(&self) -> Slot {
        match *self {
            Op::Take { slot, .. } => slot,
            Op::Swap { a, .. } | Op::Compare { a, .. } => a,
            _ => {
                // every other variant has exactly one target, which is also what `targets()` returns
                let mut out = 0;
                self.for_single_target(&mut out);
                out
            }
        }
    }

    fn for_single_target(&self, out: &mut Slot) {
        match *self {
            Op::New { slot }
            | Op::Default { slot }
            | Op::FromText { slot, .. }
            | Op::FromChar { slot, .. }
            | Op::FromBool { slot, .. }
            | Op::FromInt { slot, .. }
            | Op::FromStatic { slot, .. }
            | Op::WithCapacity { slot, .. }
            | Op::FromUtf8Lossy { slot, .. }
            | Op::FromUtf16 { slot, .. }
            | Op::Collect { slot, .. }
            | Op::Display { slot, .. }
            | Op::Clone { slot, .. }
            | Op::Drop { slot }
            | Op::CloneFrom { slot, .. }
            | Op::OptionRoundTrip { slot }
            | Op::Add { slot, .. }
            | Op::Push { slot, .. }
            | Op::PushStr { slot, .. }
            | Op::Pop { slot, .. }
            | Op::Remove { slot, .. }
            | Op::Insert { slot, .. }
            | Op::InsertStr { slot, .. }
            | Op::Truncate { slot, .. }
            | Op::Clear { slot }
            | Op::Retain { slot, .. }
            | Op::Reserve { slot, .. }
            | Op::ShrinkTo { slot, .. }
            | Op::ShrinkToFit { slot, .. }
            | Op::Extend { slot, .. }
            | Op::AddAssign { slot, .. }
            | Op::Write { slot, .. }
            | Op::WriteArg { slot, .. } => *out = slot,
            Op::Take { slot, .. } => *out = slot,
            Op::Swap { a, .. } | Op::Compare { a, .. } => *out = a,
        }
    }

    /// the slot the operation mutates in place (None for constructors / pure handle ops)
    pub fn mutated(&self) -> Option<Slot> {
        match *self {
            Op::Add { slot, .. }
            | Op::Push { slot, .. }
            | Op::PushStr { slot, .. }
            | Op::Pop { slot, .. }
            | Op::Remove { slot, .. }
            | Op::Insert { slot, .. }
            | Op::InsertStr { slot, .. }
            | Op::Truncate { slot, .. }
            | Op::Clear { slot }
            | Op::Retain { slot, .. }
            | Op::Reserve { slot, .. }
            | Op::ShrinkTo { slot, .. }
            | Op::ShrinkToFit { slot, .. }
            | Op::Extend { slot, .. }
            | Op::AddAssign { slot, .. }
            | Op::Write { slot, .. }
            | Op::WriteArg { slot, .. } => Some(slot),
            _ => None,
        }
    }

    pub fn is_constructor(&self) -> bool {
        matches!(
            self,
            Op::New { .. }
                | Op::Default { .. }
                | Op::FromText { .. }
                | Op::FromChar { .. }
                | Op::FromBool { .. }
                | Op::FromInt { .. }
                | Op::FromStatic { .. }
                | Op::WithCapacity { .. }
                | Op::FromUtf8Lossy { .. }
                | Op::FromUtf16 { .. }
                | Op::Collect { .. }
                | Op::Display { .. }
                | Op::Clone { .. }
        )
    }
}

/// What the fault / panic enumerators add to a history.
#[derive(Clone, Debug, Default, PartialEq, Eq, Hash, Serialize, Deserialize)]
pub struct Plan {
    /// allocator request indices (0-based, counted over the whole history) that fail
    #[serde(default, skip_serializing_if = "Vec::is_empty")]
    pub faults: Vec<u64>,
    /// another thread acting on ANOTHER handle in the middle of one operation
    #[serde(default, skip_serializing_if = "Option::is_none")]
    pub intrude: Option<Intrude>,
}

/// What a second thread could do while operation number `step` of the history runs: at the `at`-th point at which
/// the crate calls the allocator or touches a buffer (the shim's hook events, counted within that operation), the
/// handle in `slot` is dropped, or cloned (the clone lives until the operation returns). The slot is never one the
/// operation itself uses, so this is an interleaving real threads can produce (C04: handles are Send + Sync).
#[derive(Clone, Copy, Debug, PartialEq, Eq, Hash, Serialize, Deserialize)]
pub struct Intrude {
    pub step: u16,
    pub at: u16,
    pub slot: Slot,
    pub drop: bool,
}

#[derive(Clone, Debug, PartialEq, Eq, Hash, Serialize, Deserialize)]
pub struct History {
    pub ops: Vec<Op>,
    #[serde(default)]
    pub plan: Plan,
}

pub fn hex_encode(b: &[u8]) -> String {
    let mut s = String::with_capacity(b.len() * 2);
    for x in b {
        s.push_str(&format!("{x:02x}"));
    }
    s
}

pub fn hex_decode(s: &str) -> Vec<u8> {
    let b = s.as_bytes();
    (0..b.len() / 2)
        .map(|i| u8::from_str_radix(std::str::from_utf8(&b[2 * i..2 * i + 2]).unwrap_or("00"), 16).unwrap_or(0))
        .collect()
}
