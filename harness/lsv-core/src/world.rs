//! The world a history runs in: slots of real LeanStrings, the String model, observations.

use crate::ir::*;
use crate::shadow;
use crate::statics;
use lean_string::LeanString;

#[derive(Clone, Copy, Debug, PartialEq, Eq, Hash)]
pub enum Kind {
    Inline,
    Static,
    Heap,
}

impl Kind {
    pub fn name(self) -> &'static str {
        match self {
            Kind::Inline => "inline",
            Kind::Static => "static",
            Kind::Heap => "heap",
        }
    }
}

#[derive(Clone, Debug, PartialEq, Eq)]
pub struct Obs {
    pub raw: [u8; 16],
    pub ptr: usize,
    pub len: usize,
    pub cap: usize,
    pub kind: Kind,
    pub rc: Option<usize>,
    /// start and size of the live block the heap pointer lies in
    pub block: Option<(usize, usize)>,
}

impl Obs {
    pub fn state_name(&self) -> String {
        match (self.kind, self.rc) {
            (Kind::Heap, Some(1)) => "heap_unique".into(),
            (Kind::Heap, _) => "heap_shared".into(),
            (Kind::Inline, _) if self.len == 16 => "inline_full".into(),
            (k, _) => k.name().into(),
        }
    }
}

#[derive(Clone, Debug)]
pub struct Failure {
    pub clause: String,
    pub detail: String,
}

impl Failure {
    pub fn new(clause: &str, detail: String) -> Self {
        Failure { clause: clause.to_string(), detail }
    }
    pub fn property(&self) -> &str {
        &self.clause[..3]
    }
}

pub fn raw_bytes(s: &LeanString) -> [u8; 16] {
    // LeanString is two machine words (asserted at start-up, C20)
    unsafe { std::ptr::read(s as *const LeanString as *const [u8; 16]) }
}

pub const CANARY: u8 = 0xC7;

/// One slot: the handle followed by a canary area, so that a write past the 16 inline bytes is
/// seen (and lands in harness memory, not in the next handle).
#[repr(C)]
pub struct Cell {
    pub v: Option<LeanString>,
    canary: [u8; 240],
}

pub struct Slots(Box<[Cell; SLOTS]>);

impl Slots {
    fn new() -> Self {
        Slots(Box::new(std::array::from_fn(|_| Cell { v: None, canary: [CANARY; 240] })))
    }
    pub fn iter(&self) -> impl Iterator<Item = &Option<LeanString>> {
        self.0.iter().map(|c| &c.v)
    }
    pub fn iter_mut(&mut self) -> impl Iterator<Item = &mut Option<LeanString>> {
        self.0.iter_mut().map(|c| &mut c.v)
    }
    pub fn swap(&mut self, a: usize, b: usize) {
        if a != b {
            let (x, y) = if a < b {
                let (l, r) = self.0.split_at_mut(b);
                (&mut l[a].v, &mut r[0].v)
            } else {
                let (l, r) = self.0.split_at_mut(a);
                (&mut r[0].v, &mut l[b].v)
            };
            std::mem::swap(x, y);
        }
    }
    /// raw pointer to a slot (for callbacks that act on a handle other than the one being operated on)
    pub fn slot_ptr(&mut self, i: usize) -> *mut Option<LeanString> {
        &mut self.0[i].v as *mut _
    }
    /// index of a slot whose canary area was written
    pub fn damaged(&self) -> Option<usize> {
        self.0.iter().position(|c| c.canary.iter().any(|b| *b != CANARY))
    }
    pub fn repair(&mut self) {
        for c in self.0.iter_mut() {
            c.canary = [CANARY; 240];
        }
    }
}

impl std::ops::Index<usize> for Slots {
    type Output = Option<LeanString>;
    fn index(&self, i: usize) -> &Option<LeanString> {
        &self.0[i].v
    }
}
impl std::ops::IndexMut<usize> for Slots {
    fn index_mut(&mut self, i: usize) -> &mut Option<LeanString> {
        &mut self.0[i].v
    }
}

pub struct World {
    pub slots: Slots,
    pub model: [Option<String>; SLOTS],
    /// global-allocator requests (outside the crate's own buffers) made inside the last real operation, when
    /// the operation is one during which the harness itself allocates nothing
    pub last_other_allocs: Option<u64>,
    /// the callback side effect of the last real operation happened (slot, dropped?)
    pub last_fx: Option<(Slot, bool)>,
    /// a callback or the neighbour thread acted on another handle during the last operation
    pub neighbour_acted: bool,
    /// global-allocator requests made while `extend` itself ran (its items existed before)
    pub last_extend_allocs: Option<u64>,
    /// what another thread does during the next operation (set by the history runner for one step)
    pub intrude: Option<crate::ir::Intrude>,
}

impl World {
    pub fn new() -> Self {
        World { slots: Slots::new(), model: [const { None }; SLOTS], last_other_allocs: None, last_fx: None, neighbour_acted: false, last_extend_allocs: None, intrude: None }
    }

    /// Observe a live handle without trusting it more than necessary. Returns Err with failures
    /// if the handle is visibly corrupt (reading it further could fault).
    pub fn observe(&self, i: usize) -> Result<Option<Obs>, Vec<Failure>> {
        let Some(s) = self.slots[i].as_ref() else { return Ok(None) };
        let raw = raw_bytes(s);
        let len = s.len();
        let heap = s.is_heap_allocated();
        let handle_addr = s as *const LeanString as usize;
        let mut fails = Vec::new();
        // Some(s) has exactly the bytes of s (same size, asserted at start-up): read them back as an Option
        let as_option: &Option<LeanString> = unsafe { &*(s as *const LeanString as *const Option<LeanString>) };
        if as_option.is_none() {
            fails.push(Failure {
                clause: "C20.niche".to_string(),
                detail: format!("slot {i}: the bytes of a live handle {raw:02x?} read as Option::None"),
            });
            return Err(fails);
        }
        if heap {
            let ptr = s.as_str().as_ptr() as usize;
            let block = shadow::with(|h| h.find_live(ptr).map(|b| (b.start, b.size)));
            let Some((start, size)) = block else {
                fails.push(Failure {
                    clause: "C03.dangling_handle".to_string(),
                    detail: format!("slot {i}: heap handle points to {ptr:#x}, which is not inside any live block"),
                });
                return Err(fails);
            };
            if ptr - start + len > size {
                fails.push(Failure {
                    clause: "C03.len_out_of_block".to_string(),
                    detail: format!(
                        "slot {i}: heap handle at offset {} with len {len} exceeds its block of {size} bytes",
                        ptr - start
                    ),
                });
                return Err(fails);
            }
            let cap = s.capacity();
            let rc = shadow::refcount_of(s);
            Ok(Some(Obs { raw, ptr, len, cap, kind: Kind::Heap, rc, block: Some((start, size)) }))
        } else {
            let ptr = s.as_str().as_ptr() as usize;
            let kind = if ptr >= handle_addr && ptr < handle_addr + 16 {
                if len > 16 {
                    fails.push(Failure {
                        clause: "C01.inline_len".to_string(),
                        detail: format!("slot {i}: inline handle reports len {len}"),
                    });
                    return Err(fails);
                }
                Kind::Inline
            } else {
                Kind::Static
            };
            if kind == Kind::Static {
                let pool = statics::pool();
                match pool.find_by_ptr(ptr) {
                    Some(k) if len <= pool.texts[k].len() => {}
                    // a static text of the crate's own (a literal in read-only memory) is as good as one of the pool
                    _ if in_readonly_mapping(ptr, len) => {}
                    _ => {
                        fails.push(Failure {
                            clause: "C10.static_ptr".to_string(),
                            detail: format!(
                                "slot {i}: non-heap handle points outside itself to {ptr:#x} len {len}, not a prefix of a static text"
                            ),
                        });
                        return Err(fails);
                    }
                }
            }
            let cap = s.capacity();
            Ok(Some(Obs { raw, ptr, len, cap, kind, rc: None, block: None }))
        }
    }

    pub fn observe_all(&self) -> Result<[Option<Obs>; SLOTS], Vec<Failure>> {
        let mut out: [Option<Obs>; SLOTS] = [const { None }; SLOTS];
        for i in 0..SLOTS {
            out[i] = self.observe(i).map_err(|mut fails| {
                // a handle that cannot even be read does not "read back what a String holds" either
                let d = fails.first().map(|f| f.detail.clone()).unwrap_or_default();
                fails.push(Failure::new("C01.unreadable_handle", d.clone()));
                // marker consumed by `step`: which slot could not be read
                fails.push(Failure::new("C00.slot", i.to_string()));
                fails
            })?;
        }
        Ok(out)
    }

    /// A world with the same model and no real strings (to compute what the model would hold).
    pub fn clone_model(&self) -> World {
        let mut w = World::new();
        w.model = self.model.clone();
        w
    }

    /// Forget all real handles without dropping them (state may be corrupt).
    pub fn leak_all(&mut self) {
        for s in self.slots.iter_mut() {
            if let Some(v) = s.take() {
                std::mem::forget(v);
            }
        }
    }
}

impl Default for World {
    fn default() -> Self {
        Self::new()
    }
}

pub fn boundaries(s: &str) -> Vec<usize> {
    let mut v: Vec<usize> = s.char_indices().map(|(i, _)| i).collect();
    v.push(s.len());
    v
}

pub fn resolve_idx(idx: Idx, s: &str) -> usize {
    match idx {
        Idx::Raw(n) => n,
        Idx::Boundary(k) => {
            let b = boundaries(s);
            b[(k as usize * b.len()) >> 16]
        }
        Idx::LenPlus(d) => s.len().saturating_add_signed(d as isize),
    }
}

pub fn resolve_size(n: Size, len: usize, cap: usize) -> usize {
    match n {
        Size::Abs(n) => n,
        Size::CapPlus(d) => cap.saturating_add_signed(d as isize),
        Size::LenPlus(d) => len.saturating_add_signed(d as isize),
        Size::RoomPlus(d) => cap.saturating_sub(len).saturating_add_signed(d as isize),
        Size::MaxMinusLenMinus(d) => usize::MAX - len - d as usize,
    }
}

pub fn resolve_text(t: &Text, len: usize, cap: usize) -> String {
    match t {
        Text::Lit(s) => s.clone(),
        Text::Fill { delta, unit } => {
            let n = (cap.saturating_sub(len) as i64 + *delta as i64).clamp(0, 8192) as usize;
            let u = if unit.is_ascii() { *unit } else { 'x' };
            std::iter::repeat_n(u, n).collect()
        }
        Text::FillAll { unit } => {
            let u = if unit.is_ascii() { *unit } else { 'x' };
            std::iter::repeat_n(u, cap.saturating_sub(len).min(64 << 20)).collect()
        }
        Text::Repeat { n, unit } => std::iter::repeat_n(*unit, (*n).min(192 << 20)).collect(),
    }
}

/// Is [ptr, ptr+len) inside a mapping of this process that is readable and not writable (program text / rodata)?
/// Consulted only for non-heap handles that point neither into themselves nor into the harness's pool.
fn in_readonly_mapping(ptr: usize, len: usize) -> bool {
    let Ok(maps) = std::fs::read_to_string("/proc/self/maps") else { return false };
    for line in maps.lines() {
        let mut it = line.split_whitespace();
        let (Some(range), Some(perms)) = (it.next(), it.next()) else { continue };
        let Some((a, b)) = range.split_once('-') else { continue };
        let (Ok(a), Ok(b)) = (usize::from_str_radix(a, 16), usize::from_str_radix(b, 16)) else { continue };
        if ptr >= a && ptr.saturating_add(len) <= b {
            return perms.starts_with('r') && perms.as_bytes().get(1) == Some(&b'-');
        }
    }
    false
}
