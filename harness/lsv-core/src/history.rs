//! Running a whole history and collecting the verdict.

use crate::ir::*;
use crate::outcome::silence_panics;
use crate::shadow;
use crate::step::Ctx;
use crate::world::*;
use std::panic::{AssertUnwindSafe, catch_unwind};

pub struct HistoryResult {
    pub failures: Vec<(usize, Failure)>,
    pub ctx: Ctx,
    /// allocator requests issued by the crate during the history
    pub requests: u64,
    pub faults_fired: u64,
    pub refused_giant: u64,
    pub bytes_moved: u64,
    pub steps_run: usize,
}

impl HistoryResult {
    pub fn failures_of<'a>(&'a self, prop: &'a str) -> impl Iterator<Item = &'a (usize, Failure)> + 'a {
        self.failures.iter().filter(move |(_, f)| f.property() == prop)
    }
    pub fn has_foreign(&self, prop: &str) -> bool {
        self.failures.iter().any(|(_, f)| f.property() != prop)
    }
}

pub fn assert_layout() {
    assert_eq!(std::mem::size_of::<lean_string::LeanString>(), 16);
    assert_eq!(std::mem::size_of::<Option<lean_string::LeanString>>(), 16);
}

pub fn run_history(h: &History) -> HistoryResult {
    run_history_with(h, shadow::DEFAULT_GIANT_LIMIT, None)
}

/// Runs the history until a failure of `prop` (or a failure after which the state cannot be
/// trusted); failures of other properties that leave the state usable do not stop it.
pub fn run_history_for(h: &History, prop: &str) -> HistoryResult {
    run_history_with(h, shadow::DEFAULT_GIANT_LIMIT, Some(prop))
}

/// Histories on which an earlier engine process of this check died (LSV_SKIP_FILE: one digest per line). They are
/// excluded by construction so that the search goes on behind a crash that another property's check owns.
fn skip_set() -> &'static std::collections::HashSet<u64> {
    static SKIP: std::sync::OnceLock<std::collections::HashSet<u64>> = std::sync::OnceLock::new();
    SKIP.get_or_init(|| {
        std::env::var_os("LSV_SKIP_FILE")
            .and_then(|p| std::fs::read_to_string(p).ok())
            .map(|s| s.lines().filter_map(|l| l.trim().parse::<u64>().ok()).collect())
            .unwrap_or_default()
    })
}

pub fn skipped_crashing_cases() -> u64 {
    SKIPPED.load(std::sync::atomic::Ordering::Relaxed)
}
static SKIPPED: std::sync::atomic::AtomicU64 = std::sync::atomic::AtomicU64::new(0);

pub fn run_history_with(h: &History, giant_limit: usize, stop_prop: Option<&str>) -> HistoryResult {
    silence_panics();
    if !skip_set().is_empty() && skip_set().contains(&crate::checks::common::digest(h)) {
        SKIPPED.fetch_add(1, std::sync::atomic::Ordering::Relaxed);
        return HistoryResult { failures: Vec::new(), ctx: Ctx::default(), requests: 0, faults_fired: 0, refused_giant: 0, bytes_moved: 0, steps_run: 0 };
    }
    shadow::with(|hp| {
        hp.begin_case();
        hp.fault_plan = h.plan.faults.clone();
        hp.giant_limit = giant_limit;
    });
    let mut w = World::new();
    let mut ctx = Ctx::default();
    let mut failures: Vec<(usize, Failure)> = Vec::new();
    let mut fatal = false;
    let mut steps_run = 0;
    for (i, op) in h.ops.iter().enumerate() {
        w.intrude = h.plan.intrude.filter(|x| x.step as usize == i);
        let res = w.step(op, &mut ctx);
        steps_run = i + 1;
        for f in res.failures {
            failures.push((i, f));
        }
        let stop = match stop_prop {
            None => !failures.is_empty(),
            Some(p) => failures.iter().any(|(_, f)| f.property() == p),
        };
        if res.fatal || stop {
            fatal = true;
            break;
        }
    }
    let n = h.ops.len();
    if fatal {
        w.leak_all();
    } else {
        // drop everything: nothing may remain allocated
        let r = catch_unwind(AssertUnwindSafe(|| {
            for s in w.slots.iter_mut() {
                *s = None;
            }
        }));
        if r.is_err() {
            failures.push((n, Failure::new("C03.drop_panicked", "dropping the remaining handles panicked".into())));
            w.leak_all();
        }
        let (viol, live): (Vec<shadow::HeapViolation>, usize) = shadow::with(|hp| {
            let live = hp.live.len();
            hp.check_quarantine();
            (std::mem::take(&mut hp.violations), live)
        });
        for v in viol {
            failures.push((n, Failure::new(&format!("C03.{}", v.clause), v.detail)));
        }
        if live != 0 {
            failures.push((
                n,
                Failure::new("C03.leak", format!("{live} block(s) still allocated after every handle was dropped")),
            ));
        }
        // context aliases for end-of-history failures
        let mut extra = Vec::new();
        for (i, x) in &failures {
            if *i == n && x.property() == "C03" {
                let tail = x.clause.replace('.', "_");
                if ctx.fault_fired {
                    extra.push((n, Failure::new(&format!("C05.after_fault_{tail}"), x.detail.clone())));
                }
                if ctx.giant_refused {
                    extra.push((n, Failure::new(&format!("C06.after_refusal_{tail}"), x.detail.clone())));
                }
                if ctx.injected_fired {
                    extra.push((n, Failure::new(&format!("C18.after_panic_{tail}"), x.detail.clone())));
                }
            }
        }
        failures.extend(extra);
    }
    let (requests, faults_fired, refused_giant, bytes_moved) = shadow::with(|hp| {
        let r = (hp.requests_total, hp.faults_fired, hp.refused_giant, hp.bytes_moved);
        let viol_end = hp.end_case();
        let _ = viol_end;
        r
    });
    let late: Vec<shadow::HeapViolation> = shadow::with(|hp| std::mem::take(&mut hp.violations));
    if !fatal {
        for v in late {
            failures.push((n, Failure::new(&format!("C03.{}", v.clause), v.detail)));
        }
    }
    HistoryResult { failures, ctx, requests, faults_fired, refused_giant, bytes_moved, steps_run }
}
