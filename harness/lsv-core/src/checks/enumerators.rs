//! C05 (fault enumeration), C18 (panic-position enumeration), C13 (shrink grid + histories).

use super::common::*;
use super::histories::ASSUME_HIST;
use crate::generate::{Profile, history_strategy};
use crate::history::run_history_for;
use crate::ir::*;
use crate::runner::*;
use std::time::Instant;

/// Runs a list of deterministic histories, sharded.
pub fn run_history_list(
    prop: &'static str,
    total: usize,
    make: impl Fn(usize) -> History + Sync,
    rule: fn(&crate::step::Ctx) -> bool,
) -> Merged {
    run_parallel(|shard| {
        let mut m = Merged::new();
        let mut cur = CurrentFile::open(prop, shard);
        let mut i = shard;
        while i < total {
            let h = make(i);
            cur.record(&history_value(&h));
            let res = run_history_for(&h, prop);
            let mut st = CaseStats::default();
            let nt = rule(&res.ctx);
            let v = account(prop, &h, &res, nt, &mut st);
            m.absorb(st);
            if let Some(v) = v {
                m.violation = Some(v);
                break;
            }
            i += SHARDS;
        }
        cur.clear();
        m
    })
}

/// Catalogue: every target state of `grids::state_prefix` x a representative of every operation that can
/// allocate or call back into user code. The enumerators run these in addition to generated histories, so that
/// each (operation, storage state) pair is certainly reached.
pub fn catalogue(callbacks_only: bool) -> Vec<History> {
    use super::grids::{N_STATES, state_prefix};
    let mut out = Vec::new();
    let it = |kind, items: &[&str], slots: &[u8], hint| IterSpec { kind, items: items.iter().map(|s| s.to_string()).collect(), slots: slots.to_vec(), hint, panic_at: None, loose: None, fx: None, upper: None };
    let pieces = |p: &[&str]| Pieces { pieces: p.iter().map(|s| s.to_string()).collect(), err_at: None, panic_at: None, fx: None };
    for state in 0..N_STATES {
        let (prefix, _) = state_prefix(state);
        let mut ops: Vec<Op> = Vec::new();
        for mask in [u64::MAX, 0x5555_5555_5555_5555, u64::MAX - 1, 0] {
            ops.push(Op::Retain { slot: 0, r: RetainSpec { mask, panic_at: None, fx: None }, try_: mask % 2 == 0 });
        }
        for hint in [None, Some(3usize), Some(usize::MAX), Some(1 << 60), Some(40)] {
            for (kind, items) in [
                (IterKind::Char, &["ab", "é€", "0123456789abcdefghij"][..]),
                (IterKind::RefChar, &["𝄞x"][..]),
                (IterKind::Str, &["ab", "", "0123456789abcdefghij"][..]),
                (IterKind::String, &["é€", "tail"][..]),
                (IterKind::Lean, &["inline", "a heap item longer than sixteen"][..]),
            ] {
                ops.push(Op::Extend { slot: 0, it: it(kind, items, &[], hint) });
            }
            ops.push(Op::Extend { slot: 0, it: it(IterKind::LeanSlots, &[], &[1, 0, 2], hint) });
            ops.push(Op::Collect { slot: 3, it: it(IterKind::Char, &["collected text of 25 bytes!"], &[], hint) });
        }
        ops.push(Op::Collect { slot: 3, it: it(IterKind::LeanSlots, &[], &[0, 1], None) });
        ops.push(Op::Write { slot: 0, d: pieces(&["a", "é€", "0123456789abcdefghij"]) });
        ops.push(Op::Display { slot: 3, d: pieces(&["0123456789", "abcdefghij", "tail"]), try_: false });
        ops.push(Op::Display { slot: 3, d: pieces(&["short"]), try_: true });
        if !callbacks_only {
            for try_ in [false, true] {
                ops.push(Op::Push { slot: 0, ch: '𝄞', try_ });
                ops.push(Op::PushStr { slot: 0, text: Text::Lit("0123456789abcdefghij".into()), try_ });
                ops.push(Op::PushStr { slot: 0, text: Text::Fill { delta: 1, unit: 'f' }, try_ });
                ops.push(Op::Insert { slot: 0, idx: Idx::Raw(0), ch: 'é', try_ });
                ops.push(Op::InsertStr { slot: 0, idx: Idx::Boundary(30000), text: Text::Lit("inserted text, 23 bytes".into()), try_ });
                ops.push(Op::Remove { slot: 0, idx: Idx::Raw(0), try_ });
                ops.push(Op::Pop { slot: 0, try_ });
                ops.push(Op::Truncate { slot: 0, n: Idx::Raw(2), try_ });
                ops.push(Op::Reserve { slot: 0, n: Size::Abs(100), try_ });
                ops.push(Op::Reserve { slot: 0, n: Size::Abs(0), try_ });
                ops.push(Op::ShrinkTo { slot: 0, n: Size::LenPlus(1), try_ });
                ops.push(Op::ShrinkToFit { slot: 0, try_ });
                ops.push(Op::WithCapacity { slot: 3, n: Size::Abs(40), try_ });
                ops.push(Op::FromInt { slot: 3, ty: IntTy::I128, nonzero: false, v: "-170141183460469231731687303715884105728".into(), try_ });
            }
            ops.push(Op::Clear { slot: 0 });
            ops.push(Op::AddAssign { slot: 0, text: Text::Lit("0123456789abcdefghij".into()) });
            ops.push(Op::Add { slot: 0, text: Text::Lit("0123456789abcdefghij".into()) });
            ops.push(Op::FromText { slot: 3, via: Via::Parse, text: "a text of twenty-five bytes".into() });
            ops.push(Op::FromText { slot: 3, via: Via::ToLeanStr, text: "a text of twenty-five bytes".into() });
            ops.push(Op::FromText { slot: 3, via: Via::TryToLeanString, text: "a text of twenty-five bytes".into() });
            ops.push(Op::FromText { slot: 3, via: Via::ToLeanString, text: "a text of twenty-five bytes".into() });
            ops.push(Op::FromUtf8Lossy { slot: 3, hex: "6161616161616161616161616161616161ffe0a0".into() });
            ops.push(Op::FromUtf16 { slot: 3, units: vec![0x41; 20], lossy: true });
            ops.push(Op::FromUtf16 { slot: 3, units: vec![0x41; 20], lossy: false });
            ops.push(Op::CloneFrom { slot: 1, from: 0 });
        }
        for op in ops {
            let mut h = prefix.clone();
            h.push(op);
            h.push(Op::Push { slot: 0, ch: 'z', try_: false });
            h.push(Op::Compare { a: 0, b: 1 });
            out.push(History { ops: h, plan: Plan::default() });
        }
    }
    out
}

pub fn run_catalogue(prop: &'static str, list: &[History], case: &(dyn Fn(&History, &mut CurrentFile) -> (CaseStats, Option<Violation>) + Sync)) -> Merged {
    run_parallel(|shard| {
        let mut m = Merged::new();
        let mut cur = CurrentFile::open(prop, shard);
        let mut i = shard;
        while i < list.len() {
            let (st, v) = case(&list[i], &mut cur);
            m.absorb(st);
            if let Some(v) = v {
                m.violation = Some(v);
                break;
            }
            i += SHARDS;
        }
        cur.clear();
        *m.counters.entry("catalogue_histories".into()).or_insert(0) += (list.len() / SHARDS) as u64;
        m
    })
}

// ------------------------------------------------------------------------------------------ C05

pub fn fault_case(prop: &'static str, pairs: bool) -> impl Fn(&History, &mut CurrentFile) -> (CaseStats, Option<Violation>) + Sync {
    move |h, cur| {
        let mut stats = CaseStats::default();
        cur.record(&history_value(h));
        let clean = run_history_for(h, prop);
        if let Some(v) = account(prop, h, &clean, false, &mut stats) {
            return (stats, Some(v));
        }
        // failures of other properties in the clean run do not stop the enumeration (the runner keeps going past
        // them); the variants are judged by this check's own clauses
        let n = clean.requests;
        for k in 0..n {
            let hk = History { ops: h.ops.clone(), plan: Plan { faults: vec![k], intrude: h.plan.intrude } };
            cur.record(&history_value(&hk));
            let rk = run_history_for(&hk, prop);
            let nt = rk.ctx.tags.contains("fault_observed");
            if let Some(v) = account(prop, &hk, &rk, nt, &mut stats) {
                return (stats, Some(v));
            }
            if rk.faults_fired > 0 {
                stats.counters.push(("faults_fired", 1));
            }
            if pairs && rk.failures.is_empty() {
                for j in (k + 1)..rk.requests {
                    let hj = History { ops: h.ops.clone(), plan: Plan { faults: vec![k, j], intrude: h.plan.intrude } };
                    cur.record(&history_value(&hj));
                    let rj = run_history_for(&hj, prop);
                    let nt = rj.ctx.tags.contains("fault_observed") && rj.faults_fired >= 2;
                    if let Some(v) = account(prop, &hj, &rj, nt, &mut stats) {
                        return (stats, Some(v));
                    }
                    if rj.faults_fired >= 2 {
                        stats.counters.push(("fault_pairs_fired", 1));
                    }
                }
            }
        }
        (stats, None)
    }
}

pub fn c05(tier: Tier, seed: u64) -> Verdict {
    let t0 = Instant::now();
    let cat = catalogue(false);
    let mut merged = run_catalogue("C05", &cat, &fault_case("C05", true));
    let n = tier.pick(5000, 60000);
    let profiles = vec![
        (Profile::faults(), n),
        (Profile { w_clone: 26, w_trunc: 14, intrusions: true, ..Profile::faults() }, n),
        (Profile { w_static: 16, w_convert: 10, ..Profile::faults() }, n / 2),
    ];
    for (i, (p, cases)) in profiles.into_iter().enumerate() {
        if merged.violation.is_some() {
            break;
        }
        let m = run_sharded("C05", seed, i as u64, cases, || history_strategy(&p), fault_case("C05", tier == Tier::Thorough));
        merged.merge(m);
        if merged.violation.is_some() {
            break;
        }
    }
    if merged.violation.is_none() {
        // allocations made outside the crate's buffer management (none on the unchanged tree) are refused as well
        merged.merge(super::sweeps::c05_global_refusals("C05"));
    }
    merged.exhaustive = false;
    finish(
        "C05",
        tier,
        seed,
        "fault_enumeration",
        "a catalogue (9 target states x every allocating or callback-taking operation, faults singly and in pairs) and, for each proptest-generated history (3-14 operations, targets inline/static/heap-unique/heap-shared) the crate's allocator requests are counted and the history is re-run once per request index with that request failing (thorough: also every ordered pair); evaluations = executions; non-trivial = the injected fault fired and the faulted call reported it (Err or panic); distinct = distinct (history, fault plan) digests",
        ASSUME_HIST,
        &merged,
        t0.elapsed().as_secs_f64(),
        "lsv",
    )
}

// ------------------------------------------------------------------------------------------ C18

fn set_panic_at(op: &mut Op, k: Option<u16>) -> bool {
    match op {
        Op::Retain { r, .. } => {
            r.panic_at = k;
            true
        }
        Op::Extend { it, .. } | Op::Collect { it, .. } => {
            it.panic_at = k;
            true
        }
        Op::Display { d, .. } | Op::Write { d, .. } => {
            d.panic_at = k;
            if k.is_some() {
                d.err_at = None;
            }
            true
        }
        _ => false,
    }
}

pub fn panic_case(prop: &'static str, max_k: u16) -> impl Fn(&History, &mut CurrentFile) -> (CaseStats, Option<Violation>) + Sync {
    move |h, cur| {
        let mut stats = CaseStats::default();
        cur.record(&history_value(h));
        let clean = run_history_for(h, prop);
        if let Some(v) = account(prop, h, &clean, false, &mut stats) {
            return (stats, Some(v));
        }
        // failures of other properties in the clean run do not stop the enumeration (the runner keeps going past
        // them); the variants are judged by this check's own clauses
        for i in 0..h.ops.len() {
            let mut probe = h.ops[i].clone();
            if !set_panic_at(&mut probe, None) {
                continue;
            }
            for k in 0..=max_k {
                let mut hk = h.clone();
                set_panic_at(&mut hk.ops[i], Some(k));
                cur.record(&history_value(&hk));
                let rk = run_history_for(&hk, prop);
                let fired = rk.ctx.injected_fired;
                let nt = rk.ctx.tags.contains("injected_nontrivial");
                if let Some(v) = account(prop, &hk, &rk, nt, &mut stats) {
                    return (stats, Some(v));
                }
                if !fired {
                    break;
                }
                stats.counters.push(("callback_panics_fired", 1));
            }
        }
        (stats, None)
    }
}

const STRING_EXTEND_TEXTS: [&str; 6] = ["x1", "a heap item longer than sixteen bytes", "é€", "", "0123456789abcdef", "tail"];

/// one case of the `Extend<LeanString> for String` sweep: None = as String::extend of the same texts
pub fn string_extend_case(n_items: usize, k: u16, hinted: bool) -> Option<String> {
    let texts = STRING_EXTEND_TEXTS;
    crate::outcome::silence_panics();
    crate::shadow::with(|h| h.begin_case());
    let leans: Vec<lean_string::LeanString> = texts[..n_items].iter().map(|t| lean_string::LeanString::from(*t)).collect();
    let strings: Vec<String> = texts[..n_items].iter().map(|t| t.to_string()).collect();
    let hint = if hinted { None } else { Some(0) };
    let mut real = String::from("ab");
    let mut model = String::from("ab");
    let r = std::panic::catch_unwind(std::panic::AssertUnwindSafe(|| real.extend(crate::callbacks::PlanIter::new(leans.into_iter(), hint, Some(k)))));
    let mo = std::panic::catch_unwind(std::panic::AssertUnwindSafe(|| model.extend(crate::callbacks::PlanIter::new(strings.into_iter(), None, Some(k)))));
    let live = crate::shadow::with(|h| {
        let l = h.live.len();
        h.end_case();
        l
    });
    if r.is_ok() != mo.is_ok() {
        Some(format!("String::extend of {n_items} LeanString items, iterator panicking at call {k}: panicked = {}, with String items = {}", r.is_err(), mo.is_err()))
    } else if real != model {
        Some(format!("String::extend of {n_items} LeanString items, iterator panicking at call {k}: the String holds {real:?}; with String items it holds {model:?}"))
    } else if live != 0 {
        Some(format!("String::extend of {n_items} LeanString items, iterator panicking at call {k}: {live} buffer(s) of the items leaked"))
    } else {
        None
    }
}

pub fn c18(tier: Tier, seed: u64) -> Verdict {
    let t0 = Instant::now();
    let cat = catalogue(true);
    let mut merged = run_catalogue("C18", &cat, &panic_case("C18", 40));
    let n = tier.pick(700, 14000);
    let base = Profile { callback_panics: false, ..Profile::panics() };
    let profiles = vec![
        (base.clone(), n),
        (Profile { w_clone: 26, w_static: 10, ..base.clone() }, n),
        (Profile { max_text: 300, ..base.clone() }, n / 2),
        // iterators whose size hint cannot be reserved: extend ignores the failed reservation and keeps pushing
        (Profile { lying_hints: true, w_clone: 26, w_trunc: 16, w_extend: 30, ..base }, n),
    ];
    for (i, (p, cases)) in profiles.into_iter().enumerate() {
        if merged.violation.is_some() {
            break;
        }
        let m = run_sharded("C18", seed, i as u64, cases, || history_strategy(&p), panic_case("C18", tier.pick(24, 64)));
        merged.merge(m);
        if merged.violation.is_some() {
            break;
        }
    }
    if merged.violation.is_none() {
        // the crate also implements Extend<LeanString> for String: a panicking iterator leaves in the String what
        // String::extend of the same texts leaves
        let mut m = Merged::new();
        'o: for n_items in 0..=STRING_EXTEND_TEXTS.len() {
            for k in 0..=(n_items as u16 + 1) {
                for hinted in [false, true] {
                    m.evaluations += 1;
                    let detail = string_extend_case(n_items, k, hinted);
                    if let Some(detail) = detail {
                        m.violation = Some(Violation { case: serde_json::json!({"kind": "string_extend", "items": n_items, "k": k, "hinted": hinted}), clause: "C18.string_extend".into(), step: 0, detail });
                        break 'o;
                    }
                    if k as usize <= n_items {
                        m.distinct.insert(digest(&("string_extend", n_items, k, hinted)));
                    }
                }
            }
        }
        merged.merge(m);
    }
    finish(
        "C18",
        tier,
        seed,
        "fault_enumeration",
        "a catalogue (9 target states x retain masks, every Extend kind x honest / small / unreservable size hints, collect, write!, to_lean_string) and, for each proptest-generated history, every callback-taking operation (retain, every Extend and FromIterator impl, to_lean_string/write! of a piecewise Display) is re-run with its callback panicking at invocation k for k = 0,1,.. until the panic no longer fires; also String::extend over LeanString items (0-6 items, every panic position); oracle = String after the identical panicking call + C02/C03 invariants + empty heap at the end; non-trivial = the panic fired with k >= 1 or on a non-inline target; distinct = distinct (history, panic position) digests",
        ASSUME_HIST,
        &merged,
        t0.elapsed().as_secs_f64(),
        "lsv",
    )
}

// ------------------------------------------------------------------------------------------ C13

fn shrink_grid() -> Vec<History> {
    // the last six capacities are "large": thresholds a size-dependent shortcut could have (4 KiB pages, 64 KiB, 1 MiB)
    let caps = [17usize, 18, 24, 31, 32, 33, 48, 64, 100, 120, 256, 1000, 4096, 5000, 65_536, 70_000, 140_000, 1_040_000];
    let mut out = Vec::new();
    for &cap in &caps {
        let large = cap > 1000;
        let mut lens: Vec<usize> = if large {
            vec![0, 16, 17, cap / 3, cap / 2 - 1, cap / 2 + 1, 4095, 4097, 65_535, 65_537, cap - 1, cap]
        } else {
            vec![0, 1, 8, 15, 16, 17, cap / 3, cap / 2, (cap * 2) / 3, cap - 2, cap - 1, cap]
        };
        lens.retain(|l| *l <= cap);
        lens.sort_unstable();
        lens.dedup();
        for &len in &lens {
            let mut ms: Vec<usize> = if large {
                vec![0, len, len + 1, 16, 17, cap / 2, cap - 1, (len + cap) / 2, usize::MAX]
            } else {
                vec![0, len.saturating_sub(1), len, len + 1, 15, 16, 17, cap - 1, cap, cap + 1, (len + cap) / 2, usize::MAX, 1 << 56, 1 << 60]
            };
            ms.sort_unstable();
            ms.dedup();
            for &m in &ms {
                for sharing in 0..5u8 {
                    for try_ in [false, true] {
                        let text: String = "é".repeat(len / 2) + &"x".repeat(len % 2);
                        let mut ops = vec![
                            Op::WithCapacity { slot: 0, n: Size::Abs(cap), try_: false },
                            Op::PushStr { slot: 0, text: Text::Lit(text), try_: false },
                        ];
                        match sharing {
                            0 => {}
                            1 => ops.push(Op::Clone { slot: 1, from: 0, via: CloneVia::Clone }),
                            2 => {
                                ops.push(Op::Clone { slot: 1, from: 0, via: CloneVia::Clone });
                                ops.push(Op::Pop { slot: 0, try_: false });
                            }
                            3 => {
                                ops.push(Op::Clone { slot: 1, from: 0, via: CloneVia::Clone });
                                ops.push(Op::Clone { slot: 2, from: 1, via: CloneVia::FromRef });
                                ops.push(Op::Truncate { slot: 1, n: Idx::Boundary(30000), try_: false });
                            }
                            _ => {
                                // shared once, sole owner again
                                ops.push(Op::Clone { slot: 1, from: 0, via: CloneVia::Clone });
                                ops.push(Op::Drop { slot: 1 });
                            }
                        }
                        if m == 0 && try_ {
                            ops.push(Op::ShrinkToFit { slot: 0, try_ });
                        } else {
                            ops.push(Op::ShrinkTo { slot: 0, n: Size::Abs(m), try_ });
                        }
                        ops.push(Op::Compare { a: 0, b: 1 });
                        ops.push(Op::Push { slot: 0, ch: 'z', try_: false });
                        out.push(History { ops, plan: Plan::default() });
                    }
                }
            }
        }
    }
    out
}

pub fn c13(tier: Tier, seed: u64) -> Verdict {
    let t0 = Instant::now();
    let grid = shrink_grid();
    let rule: fn(&crate::step::Ctx) -> bool = |c| c.tags.contains("shrink_nontrivial");
    let mut merged = run_history_list("C13", grid.len(), |i| grid[i].clone(), rule);
    merged.counters.insert("grid_cases".into(), grid.len() as u64);
    if merged.violation.is_none() {
        let n = tier.pick(8000, 300_000);
        for (i, p) in [Profile::shrink(), Profile { w_clone: 30, intrusions: true, ..Profile::shrink() }].into_iter().enumerate() {
            let m = run_sharded("C13", seed, i as u64, n, || history_strategy(&p), plain_history_case("C13", rule));
            merged.merge(m);
            if merged.violation.is_some() {
                break;
            }
        }
    }
    if merged.violation.is_none() {
        // the same postconditions when the allocator refuses a request of the shrinking call: a thinned grid, each
        // allocator request of the history failing in turn
        let list: Vec<History> = grid.iter().enumerate().filter(|(i, h)| i % 7 == 0 && h.ops.iter().all(|o| !matches!(o, Op::WithCapacity { n: Size::Abs(n), .. } if *n > 5000))).map(|(_, h)| h.clone()).collect();
        let case = fault_case("C13", false);
        let mut m = run_catalogue("C13", &list, &case);
        m.counters.remove("catalogue_histories");
        m.counters.insert("fault_grid_histories".into(), list.len() as u64);
        merged.merge(m);
    }
    finish(
        "C13",
        tier,
        seed,
        "exploration",
        "exhaustive grid capacity (17 ... 1000, and 4 KiB ... 1 MiB) x length x min_capacity x sharing (unique, shared, shared with shorter handle, 3 handles, unshared again) x try/plain, plus proptest histories biased to shrink/reserve/clone; a seventh of the small grid cases re-run with each allocator request failing in turn (a shrink that reports success landed exactly; after any shrink the capacity is within the stated bounds); non-trivial = a shrink on a heap string whose capacity exceeds max(len, m); distinct history digests",
        ASSUME_HIST,
        &merged,
        t0.elapsed().as_secs_f64(),
        "lsv",
    )
}
