//! Shared case function for history-based checks.

use crate::history::{HistoryResult, run_history_for};
use crate::ir::History;
use crate::runner::{CaseStats, CurrentFile, Violation};
use crate::step::Ctx;
use serde_json::{Value, json};
use std::cell::Cell;
use std::hash::{Hash, Hasher};

pub fn digest<T: Hash>(t: &T) -> u64 {
    let mut h = std::collections::hash_map::DefaultHasher::new();
    t.hash(&mut h);
    h.finish()
}

pub fn history_value(h: &History) -> Value {
    json!({ "kind": "history", "ops": serde_json::to_value(&h.ops).unwrap(), "plan": serde_json::to_value(&h.plan).unwrap() })
}

pub fn history_from_value(v: &Value) -> Option<History> {
    let ops = serde_json::from_value(v.get("ops")?.clone()).ok()?;
    let plan = v.get("plan").and_then(|p| serde_json::from_value(p.clone()).ok()).unwrap_or_default();
    Some(History { ops, plan })
}

thread_local! {
    static SAMPLES_TAKEN: Cell<u32> = const { Cell::new(0) };
}

pub fn want_sample() -> bool {
    SAMPLES_TAKEN.with(|c| {
        if c.get() < 1 {
            c.set(c.get() + 1);
            true
        } else {
            false
        }
    })
}

/// Fold one executed history into the case statistics; returns the violation of `prop`, if any.
pub fn account(
    prop: &str,
    h: &History,
    res: &HistoryResult,
    nontrivial: bool,
    stats: &mut CaseStats,
) -> Option<Violation> {
    stats.evaluations += 1;
    for c in &res.ctx.classes {
        stats.classes.push(c.clone());
    }
    for t in &res.ctx.tags {
        stats.classes.push(format!("tag.{t}"));
    }
    for (c, n) in &res.ctx.clause_evals {
        stats.clause_evals.push((c, *n));
    }
    stats.counters.push(("steps", res.ctx.steps));
    stats.counters.push(("allocator_requests", res.requests));
    if let Some((step, f)) = res.failures_of(prop).next() {
        return Some(Violation { case: history_value(h), clause: f.clause.clone(), step: *step, detail: f.detail.clone() });
    }
    if !res.failures.is_empty() {
        stats.abandoned_foreign += 1;
        stats.classes.push(format!("foreign.{}", res.failures[0].1.clause));
        if let Ok(pref) = std::env::var("LSV_DUMP_FOREIGN") {
            if res.failures[0].1.clause.starts_with(&pref) && h.ops.len() <= 12 {
                eprintln!("FOREIGN {} step {} {} :: {}", res.failures[0].1.clause, res.failures[0].0, res.failures[0].1.detail, history_value(h));
            }
        }
        return None;
    }
    if nontrivial {
        stats.nontrivial.push(digest(h));
        if stats.sample.is_none() && want_sample() {
            stats.sample = Some(history_value(h));
        }
    }
    None
}

pub fn plain_history_case(
    prop: &'static str,
    rule: fn(&Ctx) -> bool,
) -> impl Fn(&History, &mut CurrentFile) -> (CaseStats, Option<Violation>) + Sync {
    move |h, cur| {
        cur.record(&history_value(h));
        let res = run_history_for(h, prop);
        let mut stats = CaseStats::default();
        let nt = rule(&res.ctx);
        let v = account(prop, h, &res, nt, &mut stats);
        (stats, v)
    }
}
