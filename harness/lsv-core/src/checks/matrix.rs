//! C20: layout + niche sweep + configuration matrix (digest streams compared across builds).

use super::common::*;
use super::histories::ASSUME_HIST;
use super::sweeps::c20_sweep;
use crate::generate::{Profile, history_strategy};
use crate::history::run_history;
use crate::ir::*;
use crate::outcome::*;
use crate::runner::*;
use crate::shadow::{self, EvKind};
use crate::world::World;
use proptest::strategy::{Strategy, ValueTree};
use proptest::test_runner::{Config, RngAlgorithm, TestRng, TestRunner};
use std::hash::{Hash, Hasher};
use std::io::Write;
use std::process::Command;
use std::time::Instant;

fn fnv_of<T: Hash>(t: &T, seed: u64) -> u64 {
    struct Fnv(u64);
    impl Hasher for Fnv {
        fn finish(&self) -> u64 {
            self.0
        }
        fn write(&mut self, bytes: &[u8]) {
            for b in bytes {
                self.0 = (self.0 ^ *b as u64).wrapping_mul(0x100000001b3);
            }
        }
    }
    let mut h = Fnv(0xcbf29ce484222325 ^ seed);
    t.hash(&mut h);
    h.finish()
}

fn digest_profiles() -> Vec<Profile> {
    // no giant sizes between 1 MiB and 2^56: without the hooks such a request would reach the real allocator;
    // sizes above 2^56 are rejected before any allocation and are part of the stream
    vec![
        Profile::base(),
        Profile { intrusions: false, ..Profile::sharing() },
        Profile { callback_panics: true, ..Profile::panics() },
        Profile::statics(),
        Profile { overflow_sizes: true, w_reserve: 16, w_shrink: 8, w_extend: 16, intrusions: false, ..Profile::sharing() },
        Profile { w_extend: 14, w_convert: 8, ..Profile::faults() },
    ]
}
const FAULT_PROFILE: usize = 5;

/// The i-th history of the digest stream (deterministic for a given seed).
pub fn digest_histories(seed: u64, count: usize) -> Vec<History> {
    let mut out = Vec::with_capacity(count);
    let profiles = digest_profiles();
    let per = count.div_ceil(profiles.len());
    for (pi, p) in profiles.iter().enumerate() {
        let mut seed_bytes = [0u8; 32];
        seed_bytes[..8].copy_from_slice(&seed.to_le_bytes());
        seed_bytes[8] = pi as u8;
        seed_bytes[9] = 0xC2;
        let rng = TestRng::from_seed(RngAlgorithm::ChaCha, &seed_bytes);
        let mut runner = TestRunner::new_with_rng(Config::default(), rng);
        let strat = history_strategy(p);
        for _ in 0..per {
            if out.len() == count {
                break;
            }
            let tree = strat.new_tree(&mut runner).expect("generation");
            let mut h = tree.current();
            if pi == FAULT_PROFILE {
                // behaviour when the allocator refuses a request is part of "the same behaviour in every
                // configuration": one of the first requests of the history fails (configurations built without
                // the hooks cannot inject it and skip these histories)
                h.plan = Plan { faults: vec![(out.len() % 7) as u64], intrude: None };
            }
            out.push(h);
        }
    }
    out
}

/// Value-level digest of one history (texts, lengths, capacities, heap flags, outcomes) and, with
/// the hooks on, a digest of the allocator event log. Does not use any oracle.
pub fn digest_one(h: &History) -> (u64, u64) {
    silence_panics();
    shadow::with(|hp| {
        hp.begin_case();
        hp.fault_plan = h.plan.faults.clone();
    });
    let mut w = World::new();
    let mut vd: u64 = 0;
    let mut ed: u64 = 0;
    for op in &h.ops {
        let r = w.resolve(op);
        match op {
            Op::Clone { from, .. } | Op::Take { from, .. } | Op::WriteArg { from, .. } => w.ensure_live(*from),
            Op::CloneFrom { slot, from } => {
                w.ensure_live(*from);
                w.ensure_live(*slot);
            }
            Op::Swap { a, b } | Op::Compare { a, b } => {
                w.ensure_live(*a);
                w.ensure_live(*b);
            }
            Op::OptionRoundTrip { slot } => w.ensure_live(*slot),
            _ => {}
        }
        let real = w.apply_real(op, &r);
        let events: Vec<(u8, usize, usize)> = shadow::with(|hp| {
            hp.events
                .iter()
                .map(|e| {
                    (
                        match e.kind {
                            EvKind::Alloc => 0u8,
                            EvKind::Realloc => 1,
                            EvKind::Dealloc => 2,
                            _ => 3,
                        },
                        e.size,
                        e.old_size,
                    )
                })
                .collect()
        });
        ed = fnv_of(&events, ed);
        // keep the model in step so that symbolic arguments resolve identically everywhere
        match &real {
            Outcome::Ok(_) | Outcome::Panic(PanicKind::Index, _) | Outcome::Panic(PanicKind::Injected(_), _) | Outcome::Panic(PanicKind::Fmt, _) | Outcome::FmtErr | Outcome::DecodeErr => {
                let _ = w.apply_model(op, &r);
            }
            _ => {}
        }
        for i in 0..SLOTS {
            if w.slots[i].is_some() != w.model[i].is_some() {
                // keep both sides aligned (e.g. `+` consumed the value)
                if w.slots[i].is_none() {
                    w.model[i] = None;
                } else {
                    w.model[i] = w.slots[i].as_ref().map(|s| String::from_utf8_lossy(s.as_bytes()).into_owned());
                }
            }
        }
        let class = match &real {
            Outcome::Ok(ret) => format!("ok:{ret:?}"),
            other => other.class().to_string(),
        };
        let state: Vec<Option<(Vec<u8>, usize, usize, bool)>> =
            w.slots.iter().map(|s| s.as_ref().map(|s| (s.as_bytes().to_vec(), s.len(), s.capacity(), s.is_heap_allocated()))).collect();
        vd = fnv_of(&(class, state), vd);
    }
    for s in w.slots.iter_mut() {
        *s = None;
    }
    let live = shadow::with(|hp| {
        let n = hp.live.len();
        hp.end_case();
        n
    });
    ed = fnv_of(&live, ed);
    (vd, ed)
}

/// `lsv digest`: prints one line per history: index, value digest, event digest
pub fn digest_command(seed: u64, count: usize, out: &str, dump: Option<usize>) -> i32 {
    shadow::install();
    let _ = crate::statics::pool();
    let hs = digest_histories(seed, count);
    if let Some(i) = dump {
        println!("{}", history_value(&hs[i]));
        return 0;
    }
    let lines: Vec<String> = {
        let results = std::sync::Mutex::new(vec![(0u64, 0u64); hs.len()]);
        std::thread::scope(|sc| {
            for shard in 0..SHARDS {
                let hs = &hs;
                let results = &results;
                sc.spawn(move || {
                    let mut local = Vec::new();
                    let mut i = shard;
                    while i < hs.len() {
                        local.push((i, digest_one(&hs[i])));
                        i += SHARDS;
                    }
                    let mut r = results.lock().unwrap();
                    for (i, d) in local {
                        r[i] = d;
                    }
                });
            }
        });
        results.into_inner().unwrap().iter().enumerate().map(|(i, (v, e))| format!("{i} {v:016x} {e:016x}")).collect()
    };
    match std::fs::File::create(out).and_then(|mut f| f.write_all(lines.join("\n").as_bytes())) {
        Ok(()) => 0,
        Err(e) => {
            eprintln!("cannot write {out}: {e}");
            2
        }
    }
}

pub struct MatrixCfg {
    pub name: &'static str,
    pub hooks: bool,
}

pub fn matrix_cfgs(tier: Tier) -> Vec<MatrixCfg> {
    let mut v = vec![
        MatrixCfg { name: "default-relnoassert", hooks: true },
        MatrixCfg { name: "nodefault-relnoassert", hooks: true },
        MatrixCfg { name: "all-relnoassert", hooks: true },
        MatrixCfg { name: "default-devplain", hooks: true },
        MatrixCfg { name: "nohooks-relnoassert", hooks: false },
        MatrixCfg { name: "nohooks-devplain", hooks: false },
    ];
    if tier == Tier::Thorough {
        v.push(MatrixCfg { name: "nodefault-devplain", hooks: true });
        v.push(MatrixCfg { name: "all-devplain", hooks: true });
    }
    v
}

fn read_digests(path: &std::path::Path) -> Option<Vec<(String, String)>> {
    let s = std::fs::read_to_string(path).ok()?;
    Some(
        s.lines()
            .filter_map(|l| {
                let mut it = l.split_whitespace();
                it.next()?;
                Some((it.next()?.to_string(), it.next()?.to_string()))
            })
            .collect(),
    )
}

pub fn c20(tier: Tier, seed: u64) -> Verdict {
    let t0 = Instant::now();
    // (a)+(b): layout and niche sweep in this build
    let mut merged = c20_sweep();
    // (b) inside histories: Option round trips, niche check on every observation
    if merged.violation.is_none() {
        let n = tier.pick(6000, 150_000);
        let p = Profile { w_handle: 30, ..Profile::base() };
        let rule: fn(&crate::step::Ctx) -> bool = |c| c.clause_evals.get("C20.some_is_some").copied().unwrap_or(0) >= 1 && c.tags.contains("mut_non_inline");
        let m = run_sharded("C20", seed, 0, n, || history_strategy(&p), plain_history_case("C20", rule));
        merged.merge(m);
    }
    // (c) configuration matrix
    let count = tier.pick(24_000, 160_000);
    let work = verif_dir().join("work").join("C20");
    let _ = std::fs::create_dir_all(&work);
    if merged.violation.is_none() {
        let hs = digest_histories(seed, count);
        // this build (default features, release with debug assertions, hooks): full oracles + digests
        let here: Vec<(u64, u64)> = {
            let results = std::sync::Mutex::new(vec![(0u64, 0u64); hs.len()]);
            let viol: std::sync::Mutex<Option<Violation>> = std::sync::Mutex::new(None);
            std::thread::scope(|sc| {
                for shard in 0..SHARDS {
                    let (hs, results, viol) = (&hs, &results, &viol);
                    sc.spawn(move || {
                        let mut i = shard;
                        let mut local = Vec::new();
                        while i < hs.len() {
                            let res = run_history(&hs[i]);
                            if let Some((step, f)) = res.failures.iter().find(|(_, f)| matches!(f.property(), "C01" | "C02" | "C03" | "C20")) {
                                let mut v = viol.lock().unwrap();
                                if v.is_none() {
                                    *v = Some(Violation { case: history_value(&hs[i]), clause: format!("C20.oracle_{}", f.clause.replace('.', "_")), step: *step, detail: format!("in the default configuration: {}", f.detail) });
                                }
                                break;
                            }
                            local.push((i, digest_one(&hs[i])));
                            i += SHARDS;
                        }
                        let mut r = results.lock().unwrap();
                        for (i, d) in local {
                            r[i] = d;
                        }
                    });
                }
            });
            if let Some(v) = viol.into_inner().unwrap() {
                merged.violation = Some(v);
            }
            results.into_inner().unwrap()
        };
        merged.evaluations += hs.len() as u64;
        let cfgs = matrix_cfgs(tier);
        let harness = verif_dir().join("harness");
        let mut children = Vec::new();
        for c in &cfgs {
            let profile = c.name.rsplit('-').next().unwrap();
            let exe = harness.join("target-c20").join(c.name).join(profile).join("lsv");
            let out = work.join(format!("digest-{}.txt", c.name));
            let _ = std::fs::remove_file(&out);
            if !exe.exists() {
                merged.infra_error = Some(format!("matrix binary {} is missing (run ./check C20, which builds it)", exe.display()));
                break;
            }
            let child = Command::new(&exe).args(["digest", "--seed", &seed.to_string(), "--count", &count.to_string(), "--out"]).arg(&out).spawn();
            children.push((c, out, child));
        }
        for (c, out, child) in children {
            let status = child.and_then(|mut ch| ch.wait());
            let ok = status.as_ref().map(|s| s.success()).unwrap_or(false);
            if !ok {
                let signal = status.as_ref().map(|s| s.code().is_none()).unwrap_or(false);
                if signal && merged.violation.is_none() {
                    merged.violation = Some(Violation {
                        case: serde_json::json!({"kind": "matrix", "config": c.name, "seed": seed, "count": count}),
                        clause: "C20.config_crash".into(),
                        step: 0,
                        detail: format!("the explorer built in configuration {} died on a signal while running the digest histories", c.name),
                    });
                } else if merged.infra_error.is_none() {
                    merged.infra_error = Some(format!("digest run of configuration {} failed: {status:?}", c.name));
                }
                continue;
            }
            let Some(d) = read_digests(&out) else {
                merged.infra_error = Some(format!("cannot read {}", out.display()));
                continue;
            };
            merged.evaluations += d.len() as u64;
            *merged.counters.entry(format!("matrix_histories_{}", c.name)).or_insert(0) += d.len() as u64;
            if d.len() != here.len() {
                merged.infra_error = Some(format!("configuration {} produced {} digests, expected {}", c.name, d.len(), here.len()));
                continue;
            }
            for (i, (v, e)) in d.iter().enumerate() {
                if !c.hooks && !hs[i].plan.faults.is_empty() {
                    continue;
                }
                let (hv, he) = (format!("{:016x}", here[i].0), format!("{:016x}", here[i].1));
                let value_differs = *v != hv;
                let events_differ = c.hooks && *e != he;
                if (value_differs || events_differ) && merged.violation.is_none() {
                    merged.violation = Some(Violation {
                        case: history_value(&hs[i]),
                        clause: if value_differs { "C20.config_value_digest".into() } else { "C20.config_event_digest".into() },
                        step: 0,
                        detail: format!(
                            "history #{i} behaves differently in configuration {} than in the default build: {} digest {} vs {}",
                            c.name,
                            if value_differs { "value" } else { "allocator event" },
                            if value_differs { v } else { e },
                            if value_differs { &hv } else { &he }
                        ),
                    });
                }
            }
        }
        if merged.violation.is_none() {
            for (i, h) in hs.iter().enumerate() {
                if i % 3 == 0 {
                    merged.distinct.insert(digest(h));
                }
            }
            *merged.counters.entry("matrix_configurations".into()).or_insert(0) += cfgs.len() as u64 + 1;
        }
    }
    // build-only combinations: reported by the check script through a marker file
    if let Ok(s) = std::fs::read_to_string(work.join("feature-builds.txt")) {
        let okc = s.lines().filter(|l| l.ends_with(" ok")).count();
        let bad: Vec<&str> = s.lines().filter(|l| l.ends_with(" FAILED")).collect();
        merged.counters.insert("feature_combinations_built".into(), okc as u64);
        if let Some(b) = bad.first() {
            if merged.violation.is_none() {
                merged.violation = Some(Violation {
                    case: serde_json::json!({"kind": "feature_build", "line": b}),
                    clause: "C20.feature_build".into(),
                    step: 0,
                    detail: format!("the crate does not build with this feature combination: {b}"),
                });
            }
        }
    }
    finish(
        "C20",
        tier,
        seed,
        "exploration",
        "(a) size/alignment of LeanString and Option<LeanString>; (b) niche sweep: full and partial inline strings with every possible final byte, heap / static / truncated heap strings of every length 17..=1300 and around 2^16 and 2^20, each wrapped in Some, moved through a Vec and matched; Option round trips inside proptest histories and an is-Some check on every observed handle; (c) the same seeded histories (4 generator profiles) run in this build with all C01-C03 oracles and in builds {default, no-default-features, all features} x {optimised without debug assertions, unoptimised} and hooks-off builds; per-history digests of values (texts, lengths, capacities, heap flags, outcomes) and of allocator events must be identical; the crate must build with all 8 feature combinations; non-trivial = sweep cases, histories with an Option round trip on a non-inline handle, one in three matrix histories; distinct digests",
        ASSUME_HIST,
        &merged,
        t0.elapsed().as_secs_f64(),
        "lsv",
    )
}
