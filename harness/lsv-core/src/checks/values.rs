//! Value-domain differential engines: C14 (integers), C15 (to_lean_string of everything else,
//! floats), C16 (UTF-8 / UTF-16 decoders). Oracle: the standard library on the same input.

use super::common::*;
use crate::callbacks::{PiecesDisplay, UserStruct};
use crate::generate::text_strategy;
use crate::ir::{Pieces, hex_decode, hex_encode};
use crate::runner::*;
use crate::shadow;
use lean_string::{LeanString, ToLeanString, ToLeanStringError};
use proptest::collection::vec;
use proptest::prelude::*;
use proptest::sample::select;
use serde_json::{Value, json};
use std::borrow::Cow;
use std::fmt::Write as _;
use std::time::Instant;

pub const ASSUME_VAL: &[&str] = &[
    "64-bit little-endian target; stable toolchain of /repo",
    "oracle: core/std formatting and decoding on the same input",
    "lean_string built with feature verif-hooks and debug assertions; shadow heap on (guard zones catch out-of-bounds digit writes)",
];

/// A panic out of the crate on a legal input is a mismatch with std (which does not panic).
fn guard(f: impl FnOnce() -> Result<(), String>) -> Result<(), String> {
    match std::panic::catch_unwind(std::panic::AssertUnwindSafe(f)) {
        Ok(r) => r,
        Err(p) => {
            let msg = p.downcast_ref::<String>().cloned().or_else(|| p.downcast_ref::<&str>().map(|s| s.to_string())).unwrap_or_else(|| "panic".into());
            Err(format!("the conversion panicked: {msg}"))
        }
    }
}

struct StackBuf {
    b: [u8; 64],
    n: usize,
}
impl std::fmt::Write for StackBuf {
    fn write_str(&mut self, s: &str) -> std::fmt::Result {
        let e = self.n + s.len();
        if e > 64 {
            return Err(std::fmt::Error);
        }
        self.b[self.n..e].copy_from_slice(s.as_bytes());
        self.n = e;
        Ok(())
    }
}

fn heap_clean() -> Option<String> {
    shadow::with(|h| {
        h.check_live_guards();
        if let Some(v) = h.violations.first() {
            return Some(format!("heap violation {}: {}", v.clause, v.detail));
        }
        if !h.live.is_empty() {
            return Some(format!("{} block(s) still allocated after the value was dropped", h.live.len()));
        }
        None
    })
}

fn begin() {
    shadow::with(|h| h.begin_case());
}
fn end() {
    shadow::with(|h| {
        h.end_case();
    });
}

/// one integer value of one type; returns Err(detail) on mismatch
fn check_int<T: std::fmt::Display + ToLeanString + Copy>(v: T) -> Result<(), String> {
    guard(|| check_int_inner(v))
}

fn check_int_inner<T: std::fmt::Display + ToLeanString + Copy>(v: T) -> Result<(), String> {
    let mut w = StackBuf { b: [0; 64], n: 0 };
    write!(w, "{v}").map_err(|_| "stack buffer overflow".to_string())?;
    let want = &w.b[..w.n];
    let got = v.to_lean_string();
    if got.as_bytes() != want {
        return Err(format!(
            "to_lean_string gives {:?} (bytes {:02x?}), Display gives {:?}",
            String::from_utf8_lossy(got.as_bytes()),
            got.as_bytes(),
            std::str::from_utf8(want).unwrap_or("?")
        ));
    }
    if want.len() <= 16 && got.is_heap_allocated() {
        // not this property's clause (C09) - ignored here
    }
    match v.try_to_lean_string() {
        Ok(t) if t.as_bytes() == want => Ok(()),
        Ok(t) => Err(format!("try_to_lean_string gives {:?}, Display gives {:?}", t.as_str(), std::str::from_utf8(want).unwrap_or("?"))),
        Err(e) => Err(format!("try_to_lean_string returned Err({e})")),
    }
}

pub const INT_TYPES: [&str; 24] = [
    "i8", "u8", "i16", "u16", "i32", "u32", "i64", "u64", "i128", "u128", "isize", "usize", "nz_i8", "nz_u8", "nz_i16", "nz_u16",
    "nz_i32", "nz_u32", "nz_i64", "nz_u64", "nz_i128", "nz_u128", "nz_isize", "nz_usize",
];

/// (min, max) of type `t` as i128/u128 pair: signed types use min..=max in i128; u128 handled apart
fn int_range(t: usize) -> (i128, u128) {
    match t % 12 {
        0 => (i8::MIN as i128, i8::MAX as u128),
        1 => (0, u8::MAX as u128),
        2 => (i16::MIN as i128, i16::MAX as u128),
        3 => (0, u16::MAX as u128),
        4 => (i32::MIN as i128, i32::MAX as u128),
        5 => (0, u32::MAX as u128),
        6 => (i64::MIN as i128, i64::MAX as u128),
        7 => (0, u64::MAX as u128),
        8 => (i128::MIN, i128::MAX as u128),
        9 => (0, u128::MAX),
        10 => (isize::MIN as i128, isize::MAX as u128),
        _ => (0, usize::MAX as u128),
    }
}

/// value given as (negative?, magnitude); returns None if not representable (or zero for NonZero)
pub fn check_int_value(t: usize, neg: bool, mag: u128) -> Option<Result<(), String>> {
    let (min, max) = int_range(t);
    if neg {
        if mag == 0 || min == 0 || mag > min.unsigned_abs() {
            return None;
        }
    } else if mag > max {
        return None;
    }
    let nz = t >= 12;
    if nz && mag == 0 {
        return None;
    }
    let wide: i128 = if neg { (mag as i128).wrapping_neg() } else { mag as i128 };
    macro_rules! go {
        ($ty:ty) => {{
            let v: $ty = if t % 12 == 9 { mag as $ty } else { wide as $ty };
            if nz { check_int(core::num::NonZero::<$ty>::new(v).unwrap()) } else { check_int(v) }
        }};
    }
    Some(match t % 12 {
        0 => go!(i8),
        1 => go!(u8),
        2 => go!(i16),
        3 => go!(u16),
        4 => go!(i32),
        5 => go!(u32),
        6 => go!(i64),
        7 => go!(u64),
        8 => go!(i128),
        9 => go!(u128),
        10 => go!(isize),
        _ => go!(usize),
    })
}

fn int_case(t: usize, neg: bool, mag: u128) -> Value {
    json!({"kind": "value", "domain": "int", "ty": INT_TYPES[t], "v": format!("{}{}", if neg { "-" } else { "" }, mag)})
}

fn near_boundary(t: usize, neg: bool, mag: u128) -> bool {
    let (min, max) = int_range(t);
    let mut p: u128 = 1;
    loop {
        if mag.abs_diff(p) <= 3 {
            return true;
        }
        match p.checked_mul(10) {
            Some(q) => p = q,
            None => break,
        }
    }
    if mag <= 3 {
        return true;
    }
    if neg { min.unsigned_abs().abs_diff(mag) <= 3 } else { max.abs_diff(mag) <= 3 }
}

fn int_violation(t: usize, neg: bool, mag: u128, detail: String) -> Violation {
    Violation { case: int_case(t, neg, mag), clause: "C14.display".into(), step: 0, detail: format!("{} value {}{}: {}", INT_TYPES[t], if neg { "-" } else { "" }, mag, detail) }
}

fn boundary_values() -> Vec<(bool, u128)> {
    let mut v = Vec::new();
    for neg in [false, true] {
        for d in 0..=3u128 {
            v.push((neg, d));
        }
        let mut p: u128 = 1;
        for _ in 0..39 {
            for d in -3i128..=3 {
                v.push((neg, p.wrapping_add_signed(d)));
            }
            p = p.saturating_mul(10);
        }
        for k in 0..128u32 {
            let p = 1u128 << k;
            for d in -3i128..=3 {
                v.push((neg, p.wrapping_add_signed(d)));
            }
        }
        for d in 0..=3u128 {
            v.push((neg, u128::MAX - d));
            v.push((neg, i128::MAX as u128 - d));
            v.push((neg, i128::MAX as u128 + 1 - d.min(1)));
        }
    }
    v
}

pub fn c14(tier: Tier, seed: u64) -> Verdict {
    let t0 = Instant::now();
    // (1) boundaries of every type; exhaustive 8/16-bit
    let bvals = boundary_values();
    let mut merged = run_parallel(|shard| {
        let mut m = Merged::new();
        begin();
        let run = |t: usize, neg: bool, mag: u128, m: &mut Merged| -> bool {
            if let Some(r) = check_int_value(t, neg, mag) {
                m.evaluations += 1;
                if let Err(d) = r {
                    m.violation = Some(int_violation(t, neg, mag, d));
                    return false;
                }
                if near_boundary(t, neg, mag) {
                    m.distinct.insert(digest(&(t, neg, mag)));
                }
            }
            true
        };
        'outer: for t in 0..24 {
            if t % SHARDS != shard && (t + 8) % SHARDS != shard {
                continue;
            }
            if t % SHARDS == shard {
                for &(neg, mag) in &bvals {
                    if !run(t, neg, mag, &mut m) {
                        break 'outer;
                    }
                }
                if t % 12 < 4 {
                    // exhaustive 8- and 16-bit
                    for mag in 0..=65536u128 {
                        for neg in [false, true] {
                            if !run(t, neg, mag, &mut m) {
                                break 'outer;
                            }
                        }
                    }
                    *m.counters.entry("exhaustive_small_types".into()).or_insert(0) += 1;
                }
            }
        }
        if m.violation.is_none() {
            if let Some(d) = heap_clean() {
                m.violation = Some(Violation { case: json!({"kind": "value", "domain": "int", "ty": "all", "v": "boundaries"}), clause: "C14.heap".into(), step: 0, detail: d });
            }
        }
        end();
        if shard == 0 {
            m.samples.push(int_case(4, true, 999_999_999));
            m.samples.push(int_case(7, false, 10_000_000_000_000_000_000));
            m.samples.push(int_case(20, true, 170141183460469231731687303715884105728));
        }
        m
    });
    // (2) random values, uniform per digit count, through proptest (shrinks towards small magnitudes)
    if merged.violation.is_none() {
        let per_shard = tier.pick(2_000_000, 12_000_000);
        let strat = || (0usize..24, any::<u8>(), any::<u128>(), any::<bool>()).boxed();
        let m = run_sharded("C14", seed, 0, per_shard, strat, |&(t, dsel, raw, neg), _cur| {
            let mut st = CaseStats::default();
            let (min, max) = int_range(t);
            // unsigned types have no negative values: generate a positive one instead
            let neg = neg && min != 0;
            let lim = if neg { min.unsigned_abs() } else { max };
            let max_digits = lim.to_string().len() as u32;
            let digits = 1 + dsel as u32 % max_digits;
            let lo: u128 = 10u128.pow(digits - 1);
            let hi: u128 = lo.saturating_mul(10);
            let hi = hi.min(lim.saturating_add(1)).max(lo + 1);
            let mag = lo + raw % (hi - lo);
            begin();
            let r = check_int_value(t, neg, mag);
            let clean = heap_clean();
            end();
            match r {
                None => (st, None),
                Some(Err(d)) => (st, Some(int_violation(t, neg, mag, d))),
                Some(Ok(())) => {
                    st.evaluations = 1;
                    if let Some(d) = clean {
                        return (st, Some(Violation { case: int_case(t, neg, mag), clause: "C14.heap".into(), step: 0, detail: d }));
                    }
                    if near_boundary(t, neg, mag) {
                        st.nontrivial.push(digest(&(t, neg, mag)));
                    }
                    st.classes.push(format!("digits.{digits}"));
                    (st, None)
                }
            }
        });
        merged.merge(m);
    }
    // (2b) digit patterns: a random prefix followed by a run of nines or zeros (values a digit-at-a-time or
    // chunked writer treats specially), and neighbours
    if merged.violation.is_none() {
        let per_shard = tier.pick(400_000, 4_000_000);
        let strat = || (0usize..24, any::<u128>(), 0u32..=38, any::<bool>(), -1i8..=1, any::<bool>()).boxed();
        let m = run_sharded("C14", seed, 3, per_shard, strat, |&(t, raw, run, nines, d, neg), _cur| {
            let mut st = CaseStats::default();
            let (min, max) = int_range(t);
            let neg = neg && min != 0;
            let lim = if neg { min.unsigned_abs() } else { max };
            let max_digits = lim.to_string().len() as u32;
            let run = run % max_digits;
            let pow = 10u128.pow(run);
            // prefix chosen so that the value stays inside the type
            let prefix_lim = lim / pow;
            let prefix = if prefix_lim == 0 { 0 } else { raw % prefix_lim.saturating_add(1) };
            let base = prefix.saturating_mul(pow);
            let mag = if nines { base.saturating_add(pow - 1) } else { base };
            let mag = mag.saturating_add_signed(d as i128).min(lim);
            begin();
            let r = check_int_value(t, neg, mag);
            end();
            match r {
                None => (st, None),
                Some(Err(e)) => (st, Some(int_violation(t, neg, mag, e))),
                Some(Ok(())) => {
                    st.evaluations = 1;
                    if run >= 4 {
                        st.nontrivial.push(digest(&(t, neg, mag)));
                    }
                    (st, None)
                }
            }
        });
        merged.merge(m);
    }
    // (2c) group-structured values: the decimal text cut into groups of 2, 4, 8, 9 or 19 digits (the chunk sizes a
    // fast writer works with), every group drawn from the values that are special inside a group: 0, 1, 9, 10,
    // 10^(w-1) -1 / +0 / +1, 10^w - 1, round numbers with few significant digits, a random filler
    if merged.violation.is_none() {
        let per_shard = tier.pick(300_000, 3_000_000);
        let strat = || (0usize..24, select(vec![2u32, 4, 8, 9, 19]), any::<u128>(), any::<u64>(), any::<bool>()).boxed();
        let m = run_sharded("C14", seed, 4, per_shard, strat, |&(t, w, picks, filler, neg), _cur| {
            let mut st = CaseStats::default();
            let (min, max) = int_range(t);
            let neg = neg && min != 0;
            let lim = if neg { min.unsigned_abs() } else { max };
            let b = 10u128.pow(w);
            let specials = |k: u128, fill: u128| -> u128 {
                match k % 12 {
                    0 => 0,
                    1 => 1,
                    2 => 9,
                    3 => 10,
                    4 => b / 10 - 1,
                    5 => b / 10,
                    6 => b / 10 + 1,
                    7 => b - 1,
                    8 => 1000 % b,
                    9 => 10_000 % b,
                    10 => (b / 100).max(1) * (1 + fill % 9),
                    _ => fill % b,
                }
            };
            // most significant group first; stop before leaving the type's range
            let mut mag: u128 = 0;
            let mut p = picks;
            let mut f = filler as u128;
            for _ in 0..(39 / w + 1) {
                let g = specials(p % 12, f);
                p /= 12;
                f = f.wrapping_mul(6364136223846793005).wrapping_add(1442695040888963407) >> 7;
                match mag.checked_mul(b).and_then(|x| x.checked_add(g)) {
                    Some(x) if x <= lim => mag = x,
                    _ => break,
                }
            }
            begin();
            let r = check_int_value(t, neg, mag);
            end();
            match r {
                None => (st, None),
                Some(Err(e)) => (st, Some(int_violation(t, neg, mag, e))),
                Some(Ok(())) => {
                    st.evaluations = 1;
                    if mag >= b {
                        st.nontrivial.push(digest(&(t, neg, mag)));
                    }
                    (st, None)
                }
            }
        });
        merged.merge(m);
    }
    // (2d) limb-structured values: hi * 2^64 + lo and q * 10^19 + r (what a 128-bit formatter splits a value into), with
    // hi, lo, q, r from the values special to word arithmetic: 0, 1, 2^k -1/+0/+1, 10^j -1/+0/+1 (10^19 = 0x8AC7230489E80000
    // and its neighbourhood above all), the word maximum, fillers
    if merged.violation.is_none() {
        let mut limbs: Vec<u64> = vec![0, 1, 2, 9, 10, u64::MAX, u64::MAX - 1, 0x8AC7_2304_0000_0000, 0x8AC7_2304_89E7_FFFF, 0x8AC7_2303_FFFF_FFFF, 0x1_0000_0000, 0xFFFF_FFFF, 0x0DE0_B6B3_A764_0000];
        for k in [8u32, 16, 31, 32, 33, 53, 62, 63] {
            limbs.extend([(1u64 << k) - 1, 1 << k, (1 << k) + 1]);
        }
        for j in [4u32, 8, 9, 10, 16, 17, 18, 19] {
            let p = 10u64.pow(j);
            limbs.extend([p - 1, p, p + 1, p - 2, p.wrapping_mul(9) / 10]);
        }
        limbs.sort_unstable();
        limbs.dedup();
        let n = limbs.len();
        let m = run_parallel(|shard| {
            let mut m = Merged::new();
            begin();
            let mut idx = 0usize;
            'o: for a in 0..n {
                for b in 0..n {
                    idx += 1;
                    if idx % SHARDS != shard {
                        continue;
                    }
                    let (x, y) = (limbs[a] as u128, limbs[b] as u128);
                    let p19 = 10u128.pow(19);
                    for mag in [(x << 64) | y, x.wrapping_mul(p19).wrapping_add(y), x.wrapping_mul(p19).wrapping_add(y % p19), (x << 64).wrapping_sub(y), (x << 32) | (y & 0xFFFF_FFFF)] {
                        for t in [6usize, 7, 8, 9, 10, 11, 18, 19, 20, 21, 22, 23] {
                            for neg in [false, true] {
                                // values that do not fit the type are skipped by check_int_value
                                match check_int_value(t, neg, mag) {
                                    None => {}
                                    Some(Ok(())) => {
                                        m.evaluations += 1;
                                        if t % 12 >= 8 {
                                            m.distinct.insert(digest(&(t, neg, mag)));
                                        }
                                    }
                                    Some(Err(e)) => {
                                        m.violation = Some(int_violation(t, neg, mag, e));
                                        break 'o;
                                    }
                                }
                            }
                        }
                    }
                }
                if m.evaluations % 4096 < 64 {
                    end();
                    begin();
                }
            }
            end();
            *m.counters.entry("limb_pairs".into()).or_insert(0) += (n * n / SHARDS) as u64;
            m
        });
        merged.merge(m);
    }
    // (3) thorough: exhaustive 32-bit types
    if merged.violation.is_none() && tier == Tier::Thorough {
        let m = run_parallel(|shard| {
            let mut m = Merged::new();
            begin();
            let chunk = (1u64 << 32) / SHARDS as u64;
            let (a, b) = (shard as u64 * chunk, (shard as u64 + 1) * chunk);
            'o: for bits in a..b {
                let u = bits as u32;
                let i = u as i32;
                for (t, neg, mag) in [
                    (5usize, false, u as u128),
                    (17, false, u as u128),
                    (4, i < 0, i.unsigned_abs() as u128),
                    (16, i < 0, i.unsigned_abs() as u128),
                ] {
                    if let Some(r) = check_int_value(t, neg, mag) {
                        m.evaluations += 1;
                        if let Err(d) = r {
                            m.violation = Some(int_violation(t, neg, mag, d));
                            break 'o;
                        }
                    }
                }
            }
            *m.counters.entry("exhaustive_32bit_values".into()).or_insert(0) += b - a;
            end();
            m
        });
        merged.merge(m);
    }
    finish(
        "C14",
        tier,
        seed,
        "exploration",
        "all 24 integer types (12 primitive, 12 NonZero): exhaustive for the 8- and 16-bit types; for every type every 10^k+-3, 2^k+-3, 0+-3 and extreme+-3 that the type can hold; proptest-generated values uniform per digit count for every type (thorough: 20x more, and exhaustive for i32, u32, NonZero<i32>, NonZero<u32>); oracle: core Display into a stack buffer, for to_lean_string and try_to_lean_string; non-trivial = value within +-3 of a power of ten, zero or a type extreme; distinct = distinct (type, value)",
        ASSUME_VAL,
        &merged,
        t0.elapsed().as_secs_f64(),
        "lsv-values",
    )
}

// ------------------------------------------------------------------------------------------ C15

fn tls_eq<T: std::fmt::Display + ToLeanString>(v: &T, what: &str) -> Result<(), String> {
    guard(|| tls_eq_inner(v, what))
}

fn tls_eq_inner<T: std::fmt::Display + ToLeanString>(v: &T, what: &str) -> Result<(), String> {
    let want = v.to_string();
    let got = v.to_lean_string();
    if got.as_str() != want {
        return Err(format!("{what}: to_lean_string gives {:?}, to_string gives {want:?}", got.as_str()));
    }
    match v.try_to_lean_string() {
        Ok(t) if t == want => Ok(()),
        other => Err(format!("{what}: try_to_lean_string gives {other:?}, to_string gives {want:?}")),
    }
}

/// "any other Display type": thin wrappers around the primitives that have arms of their own. They are other
/// types, so to_lean_string() must equal to_string() for them (which for floats is not the text the f32/f64 arms
/// produce: `1e-7` vs `0.0000001`).
pub fn check_wrappers(b64: u64, b32: u32) -> Result<(), String> {
    use std::num::{Saturating, Wrapping};
    let (d, f) = (f64::from_bits(b64), f32::from_bits(b32));
    tls_eq(&Wrapping(d), "Wrapping<f64>")?;
    tls_eq(&Wrapping(f), "Wrapping<f32>")?;
    tls_eq(&&d, "&f64")?;
    tls_eq(&&f, "&f32")?;
    tls_eq(&Box::new(d), "Box<f64>")?;
    tls_eq(&std::rc::Rc::new(f), "Rc<f32>")?;
    tls_eq(&Wrapping(b64), "Wrapping<u64>")?;
    tls_eq(&Wrapping(b64 as i64), "Wrapping<i64>")?;
    tls_eq(&Wrapping((b64 as u128) << 40 | b32 as u128), "Wrapping<u128>")?;
    tls_eq(&Wrapping(-((b64 >> 1) as i128) << 30), "Wrapping<i128>")?;
    tls_eq(&Wrapping(b32 as u8), "Wrapping<u8>")?;
    tls_eq(&Wrapping(b32 as i16), "Wrapping<i16>")?;
    tls_eq(&Wrapping(b32 as usize), "Wrapping<usize>")?;
    tls_eq(&Saturating(b32 as i32), "Saturating<i32>")?;
    tls_eq(&Saturating(b64 as isize), "Saturating<isize>")?;
    tls_eq(&&(b64 as i64), "&i64")?;
    tls_eq(&Box::new(b32), "Box<u32>")?;
    tls_eq(&&(b32 % 2 == 0), "&bool")?;
    tls_eq(&Box::new(char::from_u32(b32 % 0xD800).unwrap_or('x')), "Box<char>")?;
    tls_eq(&std::borrow::Cow::Borrowed("cow"), "Cow<str>")?;
    // the crate's own error types are "any other Display type" as well
    if let Err(e) = lean_string::LeanString::from_utf16(&[0xd800]) {
        tls_eq(&e, "FromUtf16Error")?;
    }
    if let Err(e) = lean_string::LeanString::try_with_capacity(usize::MAX) {
        tls_eq(&e, "ReserveError")?;
        tls_eq(&lean_string::ToLeanStringError::from(e), "ToLeanStringError::Reserve")?;
    }
    tls_eq(&lean_string::ToLeanStringError::from(std::fmt::Error), "ToLeanStringError::Fmt")?;
    Ok(())
}

pub fn check_f32(bits: u32) -> Result<(), String> {
    guard(|| check_f32_inner(bits))
}

fn check_f32_inner(bits: u32) -> Result<(), String> {
    let v = f32::from_bits(bits);
    let s = v.to_lean_string();
    let t = v.try_to_lean_string().map_err(|e| format!("try_to_lean_string Err({e})"))?;
    if t != s {
        return Err(format!("try_to_lean_string {:?} != to_lean_string {:?}", t.as_str(), s.as_str()));
    }
    match s.as_str().parse::<f32>() {
        Ok(p) if p.to_bits() == bits || (v.is_nan() && p.is_nan()) => Ok(()),
        Ok(p) => Err(format!("f32 bits {bits:#010x} ({v:e}) printed as {:?}, which parses back to bits {:#010x}", s.as_str(), p.to_bits())),
        Err(e) => Err(format!("f32 bits {bits:#010x} printed as {:?}, which does not parse: {e}", s.as_str())),
    }
}

pub fn check_f64(bits: u64) -> Result<(), String> {
    guard(|| check_f64_inner(bits))
}

fn check_f64_inner(bits: u64) -> Result<(), String> {
    let v = f64::from_bits(bits);
    let s = v.to_lean_string();
    let t = v.try_to_lean_string().map_err(|e| format!("try_to_lean_string Err({e})"))?;
    if t != s {
        return Err(format!("try_to_lean_string {:?} != to_lean_string {:?}", t.as_str(), s.as_str()));
    }
    match s.as_str().parse::<f64>() {
        Ok(p) if p.to_bits() == bits || (v.is_nan() && p.is_nan()) => Ok(()),
        Ok(p) => Err(format!("f64 bits {bits:#018x} ({v:e}) printed as {:?}, which parses back to bits {:#018x}", s.as_str(), p.to_bits())),
        Err(e) => Err(format!("f64 bits {bits:#018x} printed as {:?}, which does not parse: {e}", s.as_str())),
    }
}

fn f32_nontrivial(bits: u32) -> bool {
    let e = (bits >> 23) & 0xff;
    let m = bits & 0x7f_ffff;
    e == 0 || e == 0xff || m == 0 || m == 0x7f_ffff || e == 1 || e == 0xfe
}
fn f64_nontrivial(bits: u64) -> bool {
    let e = (bits >> 52) & 0x7ff;
    let m = bits & ((1u64 << 52) - 1);
    e == 0 || e == 0x7ff || m == 0 || m == (1u64 << 52) - 1 || e == 1 || e == 0x7fe
}

fn mantissa_edges32() -> Vec<u32> {
    vec![0, 1, 2, 3, 0x7f_ffff, 0x7f_fffe, 0x40_0000, 0x3f_ffff, 0x40_0001, 0x20_0000, 0x55_5555, 0x2a_aaaa]
}

fn check_pieces(d: &Pieces) -> Result<(), String> {
    // oracle: write! into a String
    let mut want = String::new();
    let want_res = write!(want, "{}", PiecesDisplay(d));
    // the fallible form never unwinds because of a Display error: "yields Err(Fmt) instead of a partial string"
    let got = match std::panic::catch_unwind(|| PiecesDisplay(d).try_to_lean_string()) {
        Ok(g) => g,
        Err(p) => {
            let msg = p.downcast_ref::<String>().cloned().or_else(|| p.downcast_ref::<&str>().map(|s| s.to_string())).unwrap_or_default();
            return Err(format!("try_to_lean_string of a Display in {} pieces (error position {:?}) panicked: {msg}", d.pieces.len(), d.err_at));
        }
    };
    match (want_res, got) {
        (Ok(()), Ok(s)) if s == want => {}
        (Ok(()), other) => return Err(format!("Display in {} pieces: try_to_lean_string gives {other:?}, expected Ok({want:?})", d.pieces.len())),
        (Err(_), Err(ToLeanStringError::Fmt(_))) => {}
        (Err(_), other) => {
            return Err(format!("Display failing at piece {:?}: try_to_lean_string gives {other:?}, expected Err(Fmt)", d.err_at));
        }
    }
    // plain form: equal to to_string, or panics exactly when to_string panics
    let a = std::panic::catch_unwind(|| PiecesDisplay(d).to_string());
    let b = std::panic::catch_unwind(|| PiecesDisplay(d).to_lean_string());
    match (a, b) {
        (Ok(x), Ok(y)) if y == x => Ok(()),
        (Err(_), Err(_)) => Ok(()),
        (Ok(x), Ok(y)) => Err(format!("to_lean_string gives {:?}, to_string {x:?}", y.as_str())),
        (Ok(_), Err(_)) => Err("to_lean_string panicked, to_string did not".into()),
        (Err(_), Ok(y)) => Err(format!("to_string panics on the failing Display, to_lean_string returned {:?}", y.as_str())),
    }
}

/// "... instead of a partial string", when it is the allocator that refuses: with the `k`-th allocator request of
/// the conversion failing, an Ok result must still be the complete text (an Err or the documented panic is for C05
/// to judge). `sloppy`: the Display impl ignores the results of its writes, as `let _ = f.write_str(..)` does.
fn check_pieces_refused(d: &Pieces, k: u64, sloppy: bool) -> Result<bool, String> {
    struct Sloppy<'a>(&'a [String]);
    impl std::fmt::Display for Sloppy<'_> {
        fn fmt(&self, f: &mut std::fmt::Formatter<'_>) -> std::fmt::Result {
            for p in self.0 {
                let _ = f.write_str(p);
            }
            Ok(())
        }
    }
    let want: String = d.pieces.concat();
    shadow::with(|h| {
        h.begin_case();
        h.fault_plan = vec![k];
    });
    let got = std::panic::catch_unwind(|| if sloppy { Sloppy(&d.pieces).try_to_lean_string() } else { PiecesDisplay(d).try_to_lean_string() });
    let fired = shadow::with(|h| h.faults_fired) > 0;
    let r = match &got {
        Ok(Ok(s)) if s != want.as_str() => Err(format!(
            "with allocator request #{k} refused, try_to_lean_string of a Display writing {} piece(s) ({} bytes) returned Ok with a partial text of {} bytes",
            d.pieces.len(),
            want.len(),
            s.len()
        )),
        _ => Ok(fired),
    };
    drop(got);
    let clean = heap_clean();
    end();
    if let (Ok(_), Some(c)) = (&r, clean) {
        return Err(c);
    }
    r
}

/// Display impls with interior state: `to_string()` calls `fmt` exactly once, so a conversion that formats twice
/// (e.g. to measure first) prints something else.
fn check_impure_display(n: u32) -> Result<(), String> {
    use std::cell::{Cell, RefCell};
    struct Counter(Cell<u32>, u32);
    impl std::fmt::Display for Counter {
        fn fmt(&self, f: &mut std::fmt::Formatter<'_>) -> std::fmt::Result {
            let k = self.0.get();
            self.0.set(k + 1);
            write!(f, "rendering #{} of value {}", k + 1, self.1)
        }
    }
    struct Drain(RefCell<std::vec::IntoIter<u32>>);
    impl std::fmt::Display for Drain {
        fn fmt(&self, f: &mut std::fmt::Formatter<'_>) -> std::fmt::Result {
            for (i, x) in self.0.borrow_mut().by_ref().enumerate() {
                if i > 0 {
                    f.write_str(", ")?;
                }
                write!(f, "{x}")?;
            }
            Ok(())
        }
    }
    struct FailSecond(Cell<bool>);
    impl std::fmt::Display for FailSecond {
        fn fmt(&self, f: &mut std::fmt::Formatter<'_>) -> std::fmt::Result {
            if self.0.replace(true) {
                return Err(std::fmt::Error);
            }
            f.write_str("first and only rendering, longer than sixteen bytes")
        }
    }
    guard(|| {
        let want = Counter(Cell::new(0), n).to_string();
        let got = Counter(Cell::new(0), n).to_lean_string();
        if got != want {
            return Err(format!("a Display impl that counts its calls: to_lean_string gives {:?}, to_string {want:?}", got.as_str()));
        }
        let items: Vec<u32> = (0..n % 40).collect();
        let want = Drain(RefCell::new(items.clone().into_iter())).to_string();
        let got = Drain(RefCell::new(items.into_iter())).to_lean_string();
        if got != want {
            return Err(format!("a draining Display impl: to_lean_string gives {:?}, to_string {want:?}", got.as_str()));
        }
        match FailSecond(Cell::new(false)).try_to_lean_string() {
            Ok(s) if s == "first and only rendering, longer than sixteen bytes" => Ok(()),
            other => Err(format!("a Display impl that fails when formatted a second time: {other:?}")),
        }
    })
}

fn c15_violation(case: Value, detail: String) -> Violation {
    Violation { case, clause: "C15.to_lean_string".into(), step: 0, detail }
}

pub fn check_text_routes(t: &str) -> Result<(), String> {
    guard(|| check_text_routes_inner(t))
}

fn check_text_routes_inner(t: &str) -> Result<(), String> {
    tls_eq(&t.to_string(), "String")?;
    tls_eq(&t, "&str (generic arm)")?;
    tls_eq(&Cow::Borrowed(t), "Cow (generic arm)")?;
    tls_eq(&t.to_string().into_boxed_str(), "Box<str> (generic arm)")?;
    tls_eq(&UserStruct(t), "user struct (generic arm)")?;
    // other Display types of std that go through the generic arm
    tls_eq(&format_args!("<{t}|{:>5}|{}>", t.len(), t.chars().count()), "fmt::Arguments")?;
    let boxed: Box<dyn std::fmt::Display> = Box::new(t.to_string());
    tls_eq(&boxed, "Box<dyn Display>")?;
    tls_eq(&t.escape_debug(), "str::EscapeDebug")?;
    tls_eq(&std::net::Ipv4Addr::new(t.len() as u8, 0, 255, 1), "Ipv4Addr")?;
    tls_eq(&std::num::Wrapping(t.len() as u64 * 1_000_000_007), "Wrapping<u64>")?;
    tls_eq(&std::rc::Rc::<str>::from(t), "Rc<str>")?;
    tls_eq(&std::sync::Arc::new(t.to_string()), "Arc<String>")?;
    tls_eq(&&t, "&&str")?;
    tls_eq(&&t.to_string(), "&String (generic arm)")?;
    tls_eq(&std::path::Path::new(t).display(), "path::Display")?;
    tls_eq(&t.chars().rev().collect::<String>().to_uppercase(), "String (uppercased, reversed)")?;
    // LeanStrings in several storage states
    let direct = LeanString::from(t);
    tls_eq(&direct, "LeanString")?;
    let mut spare = LeanString::with_capacity(t.len() + 40);
    spare.push_str(t);
    tls_eq(&spare, "LeanString with spare capacity")?;
    let mut longer = LeanString::from(format!("{t}-tail").as_str());
    let keep = longer.clone();
    longer.truncate(t.len());
    tls_eq(&longer, "LeanString sharing a longer buffer")?;
    drop(keep);
    tls_eq(&longer, "LeanString, sole survivor")?;
    Ok(())
}

pub fn c15(tier: Tier, seed: u64) -> Verdict {
    let t0 = Instant::now();
    // (1) exhaustive: bools, all chars; f32 stratified (thorough: all 2^32)
    let mut merged = run_parallel(|shard| {
        let mut m = Merged::new();
        begin();
        if shard == 0 {
            for b in [true, false] {
                m.evaluations += 1;
                if let Err(d) = tls_eq(&b, "bool") {
                    m.violation = Some(c15_violation(json!({"kind": "value", "domain": "bool", "v": b}), d));
                }
                m.distinct.insert(digest(&("bool", b)));
            }
            m.samples.push(json!({"kind": "value", "domain": "char", "v": "\u{10FFFF}"}));
            m.samples.push(json!({"kind": "value", "domain": "f32", "bits": "0x00000001"}));
        }
        // chars
        let mut c = shard as u32;
        while c <= 0x10FFFF && m.violation.is_none() {
            if let Some(ch) = char::from_u32(c) {
                m.evaluations += 1;
                if let Err(d) = tls_eq(&ch, "char") {
                    m.violation = Some(c15_violation(json!({"kind": "value", "domain": "char", "v": c}), d));
                }
                if ch.len_utf8() == 4 || c < 0x80 && c % 16 == 0 {
                    m.distinct.insert(digest(&("char", c)));
                }
            }
            c += SHARDS as u32;
        }
        *m.counters.entry("chars_exhaustive".into()).or_insert(0) += 1;
        // f32
        if m.violation.is_none() {
            if tier == Tier::Thorough {
                let chunk = (1u64 << 32) / SHARDS as u64;
                for bits in shard as u64 * chunk..(shard as u64 + 1) * chunk {
                    m.evaluations += 1;
                    if let Err(d) = check_f32(bits as u32) {
                        m.violation = Some(c15_violation(json!({"kind": "value", "domain": "f32", "bits": format!("{:#010x}", bits as u32)}), d));
                        break;
                    }
                    if bits % 16 == 0 {
                        // the same value widened to f64 (exactly representable as f32)
                        let w = (f32::from_bits(bits as u32) as f64).to_bits();
                        if let Err(d) = check_f64(w) {
                            m.violation = Some(c15_violation(json!({"kind": "value", "domain": "f64", "bits": format!("{w:#018x}")}), d));
                            break;
                        }
                    }
                    if f32_nontrivial(bits as u32) && (bits & 0xfff) < 4 {
                        m.distinct.insert(digest(&("f32", bits)));
                    }
                }
                *m.counters.entry("f32_bit_patterns".into()).or_insert(0) += chunk;
            } else {
                let edges = mantissa_edges32();
                'f: for e in (0..256u32).filter(|e| *e as usize % SHARDS == shard) {
                    for sign in [0u32, 1] {
                        let mut mants: Vec<u32> = edges.clone();
                        // 4096 mantissas: edges + a stride through the mantissa space
                        let mut x: u32 = e.wrapping_mul(7919).wrapping_add(sign * 104729) & 0x7f_ffff;
                        for _ in 0..4084 {
                            x = (x.wrapping_mul(1103515245).wrapping_add(12345)) & 0x7f_ffff;
                            mants.push(x);
                        }
                        for mnt in mants {
                            let bits = (sign << 31) | (e << 23) | mnt;
                            m.evaluations += 1;
                            if let Err(d) = check_f32(bits) {
                                m.violation = Some(c15_violation(json!({"kind": "value", "domain": "f32", "bits": format!("{bits:#010x}")}), d));
                                break 'f;
                            }
                            let w = (f32::from_bits(bits) as f64).to_bits();
                            m.evaluations += 1;
                            if let Err(d) = check_f64(w) {
                                m.violation = Some(c15_violation(json!({"kind": "value", "domain": "f64", "bits": format!("{w:#018x}")}), d));
                                break 'f;
                            }
                            if f32_nontrivial(bits) {
                                m.distinct.insert(digest(&("f32", bits)));
                            }
                        }
                    }
                }
            }
        }
        // f64: every exponent x sign x 1000 mantissas (edges + stride)
        if m.violation.is_none() {
            'g: for e in (0..2048u64).filter(|e| *e as usize % SHARDS == shard) {
                for sign in [0u64, 1] {
                    let mask = (1u64 << 52) - 1;
                    let mut mants: Vec<u64> = vec![0, 1, 2, mask, mask - 1, 1 << 51, (1 << 51) - 1, (1 << 51) + 1, 0x5_5555_5555_5555, 0xa_aaaa_aaaa_aaaa];
                    let mut x: u64 = e.wrapping_mul(6364136223846793005).wrapping_add(sign) & mask;
                    for _ in 0..990 {
                        x = x.wrapping_mul(6364136223846793005).wrapping_add(1442695040888963407) & mask;
                        mants.push(x);
                    }
                    for mnt in mants {
                        let bits = (sign << 63) | (e << 52) | mnt;
                        m.evaluations += 1;
                        if let Err(d) = check_f64(bits) {
                            m.violation = Some(c15_violation(json!({"kind": "value", "domain": "f64", "bits": format!("{bits:#018x}")}), d));
                            break 'g;
                        }
                        if f64_nontrivial(bits) {
                            m.distinct.insert(digest(&("f64", bits)));
                        }
                    }
                }
            }
        }
        // the neighbours (+-3 ulp) of short decimals d / 10^j: where a "short decimal" shortcut would round
        if m.violation.is_none() {
            let top: u64 = tier.pick(120_000, 2_000_000);
            let mut d = 1 + shard as u64;
            'h: while d <= top {
                for j in 1..=9i32 {
                    for base in [d as f64 / 10f64.powi(j), d as f64 * 10f64.powi(-j)] {
                        for k in -3i64..=3 {
                            let bits = (base.to_bits() as i64 + k) as u64;
                            m.evaluations += 1;
                            if let Err(x) = check_f64(bits) {
                                m.violation = Some(c15_violation(json!({"kind": "value", "domain": "f64", "bits": format!("{bits:#018x}")}), x));
                                break 'h;
                            }
                        }
                    }
                    if j <= 6 {
                        let base = d as f32 / 10f32.powi(j);
                        for k in -3i32..=3 {
                            let bits = (base.to_bits() as i32 + k) as u32;
                            m.evaluations += 1;
                            if let Err(x) = check_f32(bits) {
                                m.violation = Some(c15_violation(json!({"kind": "value", "domain": "f32", "bits": format!("{bits:#010x}")}), x));
                                break 'h;
                            }
                        }
                    }
                }
                d += SHARDS as u64;
            }
            *m.counters.entry("short_decimal_neighbourhoods".into()).or_insert(0) += top / SHARDS as u64;
        }
        if m.violation.is_none() {
            if let Some(d) = heap_clean() {
                m.violation = Some(Violation { case: json!({"kind": "value", "domain": "sweep"}), clause: "C15.heap".into(), step: 0, detail: d });
            }
        }
        end();
        m
    });
    // (2) proptest: strings through every arm, Pieces displays, random floats
    if merged.violation.is_none() {
        let n = tier.pick(6000, 150_000);
        let m = run_sharded("C15", seed, 0, n, || text_strategy(400), |t: &String, _| {
            let mut st = CaseStats::default();
            st.evaluations = 1;
            begin();
            let r = check_text_routes(t);
            let clean = heap_clean();
            end();
            if let Err(d) = r {
                return (st, Some(c15_violation(json!({"kind": "value", "domain": "text", "v": t}), d)));
            }
            if let Some(d) = clean {
                return (st, Some(Violation { case: json!({"kind": "value", "domain": "text", "v": t}), clause: "C15.heap".into(), step: 0, detail: d }));
            }
            if t.len() > 16 || !t.is_ascii() {
                st.nontrivial.push(digest(t));
            }
            (st, None)
        });
        merged.merge(m);
    }
    if merged.violation.is_none() {
        let n = tier.pick(6000, 150_000);
        let strat = || {
            // pieces are short, medium or long (block-sized and beyond), so that any internal staging is crossed
            (vec(prop_oneof![4 => text_strategy(40), 2 => text_strategy(300), 1 => text_strategy(1500)], 0..=8), prop_oneof![3 => Just(None), 2 => (0u16..=8).prop_map(Some)])
                .prop_map(|(pieces, err_at)| Pieces { pieces, err_at, panic_at: None, fx: None })
                .boxed()
        };
        let m = run_sharded("C15", seed, 1, n, strat, |d: &Pieces, _| {
            let mut st = CaseStats::default();
            st.evaluations = 1;
            begin();
            let r = check_pieces(d);
            let clean = heap_clean();
            end();
            let case = json!({"kind": "value", "domain": "pieces", "v": serde_json::to_value(d).unwrap()});
            if let Err(x) = check_impure_display(d.pieces.iter().map(|p| p.len() as u32).sum()) {
                return (st, Some(Violation { case: json!({"kind": "value", "domain": "impure_display", "v": d.pieces.len()}), clause: "C15.to_lean_string".into(), step: 0, detail: x }));
            }
            if let Err(x) = r {
                let clause = if d.err_at.is_some() { "C15.fmt_error" } else { "C15.to_lean_string" };
                return (st, Some(Violation { case, clause: clause.into(), step: 0, detail: x }));
            }
            if d.err_at.is_none() {
                for k in 0..3u64 {
                    for sloppy in [false, true] {
                        st.evaluations += 1;
                        match check_pieces_refused(d, k, sloppy) {
                            Ok(true) => st.counters.push(("refused_conversions", 1)),
                            Ok(false) => {}
                            Err(x) => {
                                let case = json!({"kind": "value", "domain": "pieces_refused", "v": serde_json::to_value(d).unwrap(), "k": k, "sloppy": sloppy});
                                return (st, Some(Violation { case, clause: "C15.partial_text".into(), step: 0, detail: x }));
                            }
                        }
                    }
                }
            }
            if let Some(x) = clean {
                return (st, Some(Violation { case, clause: "C15.heap".into(), step: 0, detail: x }));
            }
            if d.pieces.len() >= 2 || d.err_at.is_some() {
                st.nontrivial.push(digest(d));
                st.classes.push(if d.err_at.is_some_and(|e| e as usize <= d.pieces.len()) { "pieces.failing".into() } else { "pieces.ok".to_string() });
            }
            (st, None)
        });
        merged.merge(m);
    }
    if merged.violation.is_none() {
        let n = tier.pick(120_000, 12_000_000);
        let m = run_sharded("C15", seed, 2, n, || (any::<u64>(), any::<u32>()).boxed(), |&(b64, b32), _| {
            let mut st = CaseStats::default();
            st.evaluations = 2;
            if let Err(d) = check_f64(b64) {
                return (st, Some(c15_violation(json!({"kind": "value", "domain": "f64", "bits": format!("{b64:#018x}")}), d)));
            }
            if let Err(d) = check_f32(b32) {
                return (st, Some(c15_violation(json!({"kind": "value", "domain": "f32", "bits": format!("{b32:#010x}")}), d)));
            }
            // small and large magnitudes (where Display and exponent notation differ) half of the time
            let (w64, w32) = if b32 % 2 == 0 { (b64, b32) } else { ((b64 & !(0x7ffu64 << 52)) | ((if b32 % 4 == 1 { 960u64 } else { 1090 } + (b64 >> 52) % 40) << 52), (b32 & !(0xffu32 << 23)) | ((if b32 % 4 == 1 { 90u32 } else { 185 } + (b32 >> 23) % 30) << 23)) };
            st.evaluations += 20;
            if let Err(d) = check_wrappers(w64, w32) {
                return (st, Some(c15_violation(json!({"kind": "value", "domain": "wrappers", "b64": format!("{w64:#018x}"), "b32": format!("{w32:#010x}")}), d)));
            }
            if f64_nontrivial(b64) {
                st.nontrivial.push(digest(&("f64", b64)));
            }
            (st, None)
        });
        merged.merge(m);
    }
    finish(
        "C15",
        tier,
        seed,
        "exploration",
        "both bools; all 1,112,064 chars (exhaustive); f32: every exponent x sign x 4096 mantissas (thorough: all 2^32 bit patterns); f64: every exponent x sign x 1000 mantissas plus proptest-random bit patterns; the +-3 ulp neighbourhoods of the short decimals d/10^j (d up to 120000, thorough 2 million; j up to 9) for f64 and f32; proptest texts through String / &str / Cow / Box<str> / user struct / LeanString in 4 storage states; 20 thin wrappers of primitives (Wrapping, Saturating, &, Box, Rc of floats, integers, bool, char) on random values biased to very small and very large magnitudes; piecewise Display impls (0-8 pieces, optional error position; also with each of the first three allocator requests refused, for impls that propagate or ignore write errors: never Ok with a partial text); oracle: to_string / write! into a String; floats: parse back to identical bits (NaN to NaN); non-trivial = subnormal/non-finite/boundary floats, 4-byte chars, non-ASCII or > 16-byte texts, multi-piece or failing displays; distinct values",
        ASSUME_VAL,
        &merged,
        t0.elapsed().as_secs_f64(),
        "lsv-values",
    )
}

// ------------------------------------------------------------------------------------------ C16

pub const BYTE_ALPHA: [u8; 21] =
    [0x41, 0x00, 0x7f, 0x80, 0x8f, 0x90, 0x9f, 0xa0, 0xbf, 0xc0, 0xc2, 0xdf, 0xe0, 0xe1, 0xed, 0xee, 0xf0, 0xf1, 0xf4, 0xf5, 0xff];
pub const BYTE_ALPHA_MIN: [u8; 15] = [0x41, 0x80, 0x8f, 0x90, 0x9f, 0xa0, 0xbf, 0xc2, 0xe0, 0xe1, 0xed, 0xf0, 0xf1, 0xf4, 0xff];
pub const U16_ALPHA: [u16; 12] = [0x0041, 0x00e9, 0x07ff, 0x0800, 0xd7ff, 0xd800, 0xdbff, 0xdc00, 0xdfff, 0xe000, 0xfffd, 0xffff];

pub fn check_utf8(b: &[u8]) -> Result<(), String> {
    guard(|| check_utf8_inner(b))?;
    if b.len() >= 16 {
        // the same bytes at other alignments of the slice
        let mut buf: Vec<u8> = vec![b'p'; 7];
        buf.extend_from_slice(b);
        for k in [1usize, 3, 4] {
            guard(|| check_utf8_inner(&buf[k..]))?;
        }
    }
    Ok(())
}

fn check_utf8_inner(b: &[u8]) -> Result<(), String> {
    let want = String::from_utf8(b.to_vec());
    let got = LeanString::from_utf8(b);
    match (&want, &got) {
        (Ok(w), Ok(g)) if g.as_str() == w => {}
        (Err(_), Err(_)) => {}
        _ => {
            return Err(format!(
                "from_utf8({}): LeanString {:?}, String {:?}",
                hex_encode(b),
                got.as_ref().map(|g| g.as_str().to_string()).map_err(|e| e.to_string()),
                want.as_ref().map_err(|e| e.to_string())
            ));
        }
    }
    let wl = String::from_utf8_lossy(b);
    let gl = LeanString::from_utf8_lossy(b);
    if gl.as_str() != wl {
        return Err(format!("from_utf8_lossy({}): LeanString {:?}, String {:?}", hex_encode(b), gl.as_str(), wl));
    }
    if std::str::from_utf8(gl.as_bytes()).is_err() {
        return Err(format!("from_utf8_lossy({}) is not valid UTF-8", hex_encode(b)));
    }
    Ok(())
}

pub fn check_utf16(u: &[u16]) -> Result<(), String> {
    guard(|| check_utf16_inner(u))?;
    // the same units at every alignment of the slice within an 8-byte word
    if u.len() >= 4 {
        let mut buf: Vec<u16> = vec![0x55; 3];
        buf.extend_from_slice(u);
        for k in 0..3 {
            guard(|| check_utf16_inner(&buf[3 - k..]).map_err(|e| format!("(slice starting {} units before the data, i.e. at another alignment) {e}", k)))?;
            buf[2 - k.min(2)] = *u.first().unwrap_or(&0x41);
        }
    }
    Ok(())
}

fn check_utf16_inner(u: &[u16]) -> Result<(), String> {
    let want = String::from_utf16(u);
    let got = LeanString::from_utf16(u);
    match (&want, &got) {
        (Ok(w), Ok(g)) if g.as_str() == w => {}
        (Err(_), Err(_)) => {}
        _ => {
            return Err(format!(
                "from_utf16({u:04x?}): LeanString {:?}, String {:?}",
                got.as_ref().map(|g| g.as_str().to_string()).map_err(|e| e.to_string()),
                want.as_ref().map_err(|e| e.to_string())
            ));
        }
    }
    let wl = String::from_utf16_lossy(u);
    let gl = LeanString::from_utf16_lossy(u);
    if gl.as_str() != wl {
        return Err(format!("from_utf16_lossy({u:04x?}): LeanString {:?}, String {wl:?}", gl.as_str()));
    }
    Ok(())
}

fn nth_seq<T: Copy>(alpha: &[T], len: usize, mut idx: u64, out: &mut Vec<T>) {
    out.clear();
    for _ in 0..len {
        out.push(alpha[(idx % alpha.len() as u64) as usize]);
        idx /= alpha.len() as u64;
    }
}

fn bytes_nontrivial(b: &[u8]) -> bool {
    match std::str::from_utf8(b) {
        Ok(_) => false,
        Err(e) => e.valid_up_to() > 0 || String::from_utf8_lossy(b).len() != b.len() || b.iter().any(|x| *x < 0x80),
    }
}

fn c16_violation(case: Value, detail: String) -> Violation {
    Violation { case, clause: "C16.decode".into(), step: 0, detail }
}

pub fn c16(tier: Tier, seed: u64) -> Verdict {
    let t0 = Instant::now();
    let byte_plan: Vec<(&[u8], usize)> = match tier {
        Tier::Quick => vec![(&BYTE_ALPHA, 0), (&BYTE_ALPHA, 1), (&BYTE_ALPHA, 2), (&BYTE_ALPHA, 3), (&BYTE_ALPHA, 4), (&BYTE_ALPHA, 5)],
        Tier::Thorough => {
            vec![(&BYTE_ALPHA, 0), (&BYTE_ALPHA, 1), (&BYTE_ALPHA, 2), (&BYTE_ALPHA, 3), (&BYTE_ALPHA, 4), (&BYTE_ALPHA, 5), (&BYTE_ALPHA_MIN, 6), (&BYTE_ALPHA_MIN, 7)]
        }
    };
    let u16_max = tier.pick(5, 6);
    let mut merged = run_parallel(|shard| {
        let mut m = Merged::new();
        begin();
        let mut buf: Vec<u8> = Vec::new();
        let mut cur = CurrentFile::open("C16", shard);
        'a: for (alpha, len) in &byte_plan {
            let total = (alpha.len() as u64).pow(*len as u32);
            let mut i = shard as u64;
            while i < total {
                if (i / SHARDS as u64) % 4096 == 0 {
                    // a crash inside this stretch is found again by replaying the recorded range
                    cur.record(&json!({"kind": "bytes_range", "alpha": alpha.len(), "len": len, "from": i, "to": (i + 4096 * SHARDS as u64).min(total), "stride": SHARDS}));
                }
                nth_seq(alpha, *len, i, &mut buf);
                m.evaluations += 1;
                if let Err(d) = check_utf8(&buf) {
                    m.violation = Some(c16_violation(json!({"kind": "bytes", "hex": hex_encode(&buf)}), d));
                    break 'a;
                }
                // the same bytes placed at the very end of texts of 8, 15, 16, 17, 24 and 32 bytes (ASCII in front)
                if *len >= 1 && (*len <= 3 || i % 11 == 0) {
                    for total in [8usize, 15, 16, 17, 24, 32] {
                        if *len <= total {
                            let mut t: Vec<u8> = std::iter::repeat_n(b'q', total - *len).collect();
                            t.extend_from_slice(&buf);
                            m.evaluations += 1;
                            if let Err(d) = check_utf8(&t) {
                                m.violation = Some(c16_violation(json!({"kind": "bytes", "hex": hex_encode(&t)}), d));
                                break 'a;
                            }
                        }
                    }
                }
                // the same bytes embedded so that the text crosses the inline limit
                if *len >= 2 && i % 7 == 0 {
                    let mut long = b"0123456789abcd".to_vec();
                    long.extend_from_slice(&buf);
                    long.extend_from_slice(b"tail");
                    m.evaluations += 1;
                    if let Err(d) = check_utf8(&long) {
                        m.violation = Some(c16_violation(json!({"kind": "bytes", "hex": hex_encode(&long)}), d));
                        break 'a;
                    }
                }
                if m.distinct.len() < 1_500_000 && bytes_nontrivial(&buf) {
                    // counted conservatively: at most 1.5 M per shard are remembered
                    m.distinct.insert(digest(&buf));
                }
                i += SHARDS as u64;
            }
            *m.counters.entry(format!("bytes_exhaustive_len{}_alpha{}", len, alpha.len())).or_insert(0) += 1;
        }
        cur.clear();
        let mut ub: Vec<u16> = Vec::new();
        if m.violation.is_none() {
            'b: for len in 0..=u16_max {
                let total = (U16_ALPHA.len() as u64).pow(len as u32);
                let mut i = shard as u64;
                while i < total {
                    nth_seq(&U16_ALPHA, len, i, &mut ub);
                    m.evaluations += 1;
                    if let Err(d) = check_utf16(&ub) {
                        m.violation = Some(c16_violation(json!({"kind": "units", "units": ub}), d));
                        break 'b;
                    }
                    if i % 5 == 0 {
                        let mut long: Vec<u16> = "0123456789abcdef".encode_utf16().collect();
                        long.extend_from_slice(&ub);
                        m.evaluations += 1;
                        if let Err(d) = check_utf16(&long) {
                            m.violation = Some(c16_violation(json!({"kind": "units", "units": long}), d));
                            break 'b;
                        }
                    }
                    if m.distinct.len() < 2_000_000 && String::from_utf16(&ub).is_err() && ub.iter().any(|x| *x < 0xd800 || *x > 0xdfff) {
                        m.distinct.insert(digest(&ub));
                    }
                    i += SHARDS as u64;
                }
            }
        }
        // long inputs: a multi-byte character / surrogate pair / invalid fragment at every offset up to a few
        // hundred units, so that any block-wise or staged decoding has its boundaries crossed
        if m.violation.is_none() {
            let tails: [&[u16]; 5] = [&[0xd834, 0xdd1e], &[0xd800], &[0xdc00, 0xdc00], &[0xdbff, 0xdfff, 0x41], &[0x20ac]];
            'l: for n in (0..=700usize).filter(|n| n % SHARDS == shard) {
                for (ti, tail) in tails.iter().enumerate() {
                    let mut u: Vec<u16> = std::iter::repeat_n(0x78u16, n).collect();
                    u.extend_from_slice(tail);
                    u.extend_from_slice(&[0x79, 0x7a]);
                    m.evaluations += 1;
                    if let Err(d) = check_utf16(&u) {
                        m.violation = Some(c16_violation(json!({"kind": "units", "units": u}), d));
                        break 'l;
                    }
                    m.distinct.insert(digest(&("long16", n, ti)));
                }
                let btails: [&[u8]; 6] = [b"\xf0\x9d\x84\x9e", b"\xe2\x82\xac", b"\xff", b"\xf0\x9d\x84", b"\xc3\xa9", b"\xed\xa0\x80"];
                for (ti, tail) in btails.iter().enumerate() {
                    for fill in [&b"x"[..], &"é".as_bytes()[..]] {
                        let mut b: Vec<u8> = Vec::new();
                        while b.len() + fill.len() <= n {
                            b.extend_from_slice(fill);
                        }
                        b.extend_from_slice(tail);
                        b.extend_from_slice(b"0123456789abcdefghijklmnopqrstuvwxyz0123456789");
                        m.evaluations += 1;
                        if let Err(d) = check_utf8(&b) {
                            m.violation = Some(c16_violation(json!({"kind": "bytes", "hex": hex_encode(&b)}), d));
                            break 'l;
                        }
                        m.distinct.insert(digest(&("long8", n, ti, fill.len())));
                    }
                }
            }
        }
        // inputs of several KiB with a multi-byte character / pair / invalid fragment straddling every power-of-two
        // offset a block-wise decoder could cut at (256 ... 64 Ki bytes or units)
        if m.violation.is_none() {
            let btails: [&[u8]; 6] = [b"\xf0\x9d\x84\x9e", b"\xe2\x82\xac", b"\xff", b"\xf0\x9d\x84", b"\xc3\xa9", b"\xed\xa0\x80"];
            let utails: [&[u16]; 4] = [&[0xd834, 0xdd1e], &[0xd800], &[0xdc00, 0xdc00], &[0x20ac]];
            let mut idx = 0usize;
            'b: for k in 8..=16u32 {
                for back in 0..=5usize {
                    idx += 1;
                    if idx % SHARDS != shard {
                        continue;
                    }
                    let n = (1usize << k) - back;
                    for tail in btails.iter() {
                        let mut b: Vec<u8> = vec![b'x'; n];
                        b.extend_from_slice(tail);
                        b.extend_from_slice(&vec![b'y'; 300 + (1 << k) / 2]);
                        m.evaluations += 1;
                        if let Err(d) = check_utf8(&b) {
                            m.violation = Some(c16_violation(json!({"kind": "bytes", "hex": hex_encode(&b)}), d));
                            break 'b;
                        }
                    }
                    for tail in utails.iter() {
                        let mut u: Vec<u16> = vec![0x78; n];
                        u.extend_from_slice(tail);
                        u.extend(std::iter::repeat_n(0xe9u16, 300 + (1 << k) / 2));
                        m.evaluations += 1;
                        if let Err(d) = check_utf16(&u) {
                            m.violation = Some(c16_violation(json!({"kind": "units", "units": u}), d));
                            break 'b;
                        }
                    }
                    m.distinct.insert(digest(&("block", k, back)));
                }
            }
        }
        if m.violation.is_none() {
            if let Some(d) = heap_clean() {
                m.violation = Some(Violation { case: json!({"kind": "bytes", "hex": ""}), clause: "C16.heap".into(), step: 0, detail: d });
            }
        }
        end();
        if shard == 0 {
            m.samples.push(json!({"kind": "bytes", "hex": "41e0a080f09f"}));
            m.samples.push(json!({"kind": "units", "units": [0x41, 0xd800, 0xdc00, 0xdfff]}));
        }
        m
    });
    merged.exhaustive = false;
    // random longer inputs through proptest: sequences of 5-7 symbols and long spliced inputs
    if merged.violation.is_none() {
        let n = tier.pick(250_000, 3_000_000);
        let valid_chunks: Vec<Vec<u8>> =
            ["a", "é", "€", "𝄞", "\u{7ff}", "\u{800}", "\u{ffff}", "\u{10000}", "\u{10ffff}", "abcdefgh", "0123456789abcdef"].iter().map(|s| s.as_bytes().to_vec()).collect();
        let bad_chunks: Vec<Vec<u8>> = vec![
            vec![0x80], vec![0xbf], vec![0xc0, 0x80], vec![0xc2], vec![0xe0, 0x80, 0x80], vec![0xe0, 0xa0], vec![0xed, 0xa0, 0x80], vec![0xf0, 0x80, 0x80, 0x80],
            vec![0xf0, 0x90, 0x80], vec![0xf4, 0x90, 0x80, 0x80], vec![0xf5], vec![0xff], vec![0xe1, 0x80], vec![0xf1, 0x80, 0x80], vec![0xf8, 0x88, 0x80, 0x80, 0x80],
        ];
        let vc = valid_chunks.clone();
        let bc = bad_chunks.clone();
        let strat = move || {
            prop_oneof![
                3 => vec(select(BYTE_ALPHA.to_vec()), 5..=7),
                3 => vec(prop_oneof![3 => select(vc.clone()), 2 => select(bc.clone())], 0..=24).prop_map(|v| v.concat()),
                1 => vec(prop_oneof![12 => select(vc.clone()), 1 => select(bc.clone())], 20..=160).prop_map(|v| v.concat()),
                1 => vec(any::<u8>(), 0..=40),
            ]
            .boxed()
        };
        let m = run_sharded("C16", seed, 0, n, strat, |b: &Vec<u8>, _| {
            let mut st = CaseStats::default();
            st.evaluations = 1;
            begin();
            let r = check_utf8(b);
            let clean = heap_clean();
            end();
            if let Err(d) = r {
                return (st, Some(c16_violation(json!({"kind": "bytes", "hex": hex_encode(b)}), d)));
            }
            if let Some(d) = clean {
                return (st, Some(Violation { case: json!({"kind": "bytes", "hex": hex_encode(b)}), clause: "C16.heap".into(), step: 0, detail: d }));
            }
            if bytes_nontrivial(b) {
                st.nontrivial.push(digest(b));
                if String::from_utf8_lossy(b).len() > b.len() {
                    st.classes.push("lossy_output_longer_than_input".into());
                }
                if b.len() > 16 {
                    st.classes.push("crosses_inline_limit".into());
                }
            }
            (st, None)
        });
        merged.merge(m);
    }
    if merged.violation.is_none() {
        let n = tier.pick(150_000, 2_000_000);
        let strat = || {
            prop_oneof![
                3 => vec(select(U16_ALPHA.to_vec()), 0..=30),
                1 => vec(any::<u16>(), 0..=30),
                // long inputs, mostly valid (pairs and BMP units), occasionally a lone surrogate
                1 => vec(prop_oneof![10 => Just(vec![0x78u16]), 4 => Just(vec![0xd834u16, 0xdd1e]), 2 => Just(vec![0x20acu16]), 1 => Just(vec![0xd800u16]), 1 => Just(vec![0xdc00u16])], 100..=400)
                    .prop_map(|v| v.concat()),
            ]
            .boxed()
        };
        let m = run_sharded("C16", seed, 1, n, strat, |u: &Vec<u16>, _| {
            let mut st = CaseStats::default();
            st.evaluations = 1;
            begin();
            let r = check_utf16(u);
            let clean = heap_clean();
            end();
            if let Err(d) = r {
                return (st, Some(c16_violation(json!({"kind": "units", "units": u}), d)));
            }
            if let Some(d) = clean {
                return (st, Some(Violation { case: json!({"kind": "units", "units": u}), clause: "C16.heap".into(), step: 0, detail: d }));
            }
            if String::from_utf16(u).is_err() {
                st.nontrivial.push(digest(u));
            }
            (st, None)
        });
        merged.merge(m);
    }
    finish(
        "C16",
        tier,
        seed,
        "exploration",
        "bytes: every sequence of length <= 5 over a 21-symbol alphabet with a representative of every UTF-8 byte class, thorough also lengths 6 and 7 over the 15-symbol minimal alphabet; one in 7 also embedded behind 14 ASCII bytes so the text crosses the inline limit; proptest: 5-7 symbols, inputs spliced from valid chunks and invalid fragments (replacement characters outgrow the input length), raw random bytes; u16: every sequence of length <= 5 (thorough 6) over 12 symbols {BMP, surrogate boundaries}, one in 5 embedded behind 16 ASCII units; proptest random units; oracle: String::from_utf8/from_utf8_lossy/from_utf16/from_utf16_lossy; non-trivial = invalid input that also contains valid text, or lossy output longer than the input; distinct inputs",
        ASSUME_VAL,
        &merged,
        t0.elapsed().as_secs_f64(),
        "lsv-values",
    )
}

/// one fuzz iteration: bytes as UTF-8, and reinterpreted as u16 units as UTF-16, with a clean heap
pub fn fuzz_decode_case(data: &[u8]) -> Result<(), String> {
    begin();
    let units: Vec<u16> = data.chunks_exact(2).map(|c| u16::from_le_bytes([c[0], c[1]])).collect();
    let r = check_utf8(data).and_then(|_| check_utf16(&units));
    let clean = heap_clean();
    end();
    r?;
    match clean {
        Some(d) => Err(d),
        None => Ok(()),
    }
}

/// every input derived from sequence number `i` in the exhaustive byte enumeration (the sequence itself, placed at
/// the end of fixed-length texts, embedded behind a prefix)
fn bytes_inputs_of(alpha: &[u8], len: usize, i: u64) -> Vec<Vec<u8>> {
    let mut buf = Vec::new();
    nth_seq(alpha, len, i, &mut buf);
    let mut out = vec![buf.clone()];
    if len >= 1 {
        for total in [8usize, 15, 16, 17, 24, 32] {
            if len <= total {
                let mut t: Vec<u8> = std::iter::repeat_n(b'q', total - len).collect();
                t.extend_from_slice(&buf);
                out.push(t);
            }
        }
    }
    let mut long = b"0123456789abcd".to_vec();
    long.extend_from_slice(&buf);
    long.extend_from_slice(b"tail");
    out.push(long);
    out
}

/// replay of value-domain cases
pub fn replay_value(case: &Value) -> Option<Vec<(usize, String, String)>> {
    let kind = case.get("kind")?.as_str()?;
    let mut out = Vec::new();
    begin();
    match kind {
        "bytes_range" => {
            let alpha: &[u8] = if case.get("alpha")?.as_u64()? == 15 { &BYTE_ALPHA_MIN } else { &BYTE_ALPHA };
            let len = case.get("len")?.as_u64()? as usize;
            let (from, to, stride) = (case.get("from")?.as_u64()?, case.get("to")?.as_u64()?, case.get("stride")?.as_u64()?.max(1));
            let mut i = from;
            'r: while i < to {
                for b in bytes_inputs_of(alpha, len, i) {
                    if let Err(d) = check_utf8(&b) {
                        out.push((0, "C16.decode".to_string(), d));
                        break 'r;
                    }
                }
                i += stride;
            }
        }
        "bytes" => {
            let b = hex_decode(case.get("hex")?.as_str()?);
            if let Err(d) = check_utf8(&b) {
                out.push((0, "C16.decode".to_string(), d));
            }
        }
        "units" => {
            let u: Vec<u16> = case.get("units")?.as_array()?.iter().filter_map(|x| x.as_u64().map(|v| v as u16)).collect();
            if let Err(d) = check_utf16(&u) {
                out.push((0, "C16.decode".to_string(), d));
            }
        }
        "value" => match case.get("domain")?.as_str()? {
            "int" => {
                let ty = case.get("ty")?.as_str()?;
                let t = INT_TYPES.iter().position(|x| *x == ty)?;
                let v = case.get("v")?.as_str()?;
                let neg = v.starts_with('-');
                let mag: u128 = v.trim_start_matches('-').parse().ok()?;
                if let Some(Err(d)) = check_int_value(t, neg, mag) {
                    out.push((0, "C14.display".to_string(), d));
                }
            }
            "f32" => {
                let bits = u32::from_str_radix(case.get("bits")?.as_str()?.trim_start_matches("0x"), 16).ok()?;
                if let Err(d) = check_f32(bits) {
                    out.push((0, "C15.to_lean_string".to_string(), d));
                }
            }
            "f64" => {
                let bits = u64::from_str_radix(case.get("bits")?.as_str()?.trim_start_matches("0x"), 16).ok()?;
                if let Err(d) = check_f64(bits) {
                    out.push((0, "C15.to_lean_string".to_string(), d));
                }
            }
            "wrappers" => {
                let b64 = u64::from_str_radix(case.get("b64")?.as_str()?.trim_start_matches("0x"), 16).ok()?;
                let b32 = u32::from_str_radix(case.get("b32")?.as_str()?.trim_start_matches("0x"), 16).ok()?;
                if let Err(d) = check_wrappers(b64, b32) {
                    out.push((0, "C15.to_lean_string".to_string(), d));
                }
            }
            "char" => {
                let c = char::from_u32(case.get("v")?.as_u64()? as u32)?;
                if let Err(d) = tls_eq(&c, "char") {
                    out.push((0, "C15.to_lean_string".to_string(), d));
                }
            }
            "bool" => {
                if let Err(d) = tls_eq(&case.get("v")?.as_bool()?, "bool") {
                    out.push((0, "C15.to_lean_string".to_string(), d));
                }
            }
            "text" => {
                if let Err(d) = check_text_routes(case.get("v")?.as_str()?) {
                    out.push((0, "C15.to_lean_string".to_string(), d));
                }
            }
            "impure_display" => {
                if let Err(x) = check_impure_display(case.get("v")?.as_u64()? as u32) {
                    out.push((0, "C15.to_lean_string".to_string(), x));
                }
            }
            "pieces" => {
                let d: Pieces = serde_json::from_value(case.get("v")?.clone()).ok()?;
                if let Err(x) = check_pieces(&d) {
                    out.push((0, if d.err_at.is_some() { "C15.fmt_error" } else { "C15.to_lean_string" }.to_string(), x));
                }
            }
            "pieces_refused" => {
                let d: Pieces = serde_json::from_value(case.get("v")?.clone()).ok()?;
                let k = case.get("k")?.as_u64()?;
                let sloppy = case.get("sloppy")?.as_bool()?;
                if let Err(x) = check_pieces_refused(&d, k, sloppy) {
                    out.push((0, "C15.partial_text".to_string(), x));
                }
                begin();
            }
            _ => return None,
        },
        _ => return None,
    }
    if let Some(d) = heap_clean() {
        out.push((0, "C03.heap".to_string(), d));
    }
    end();
    Some(out)
}
