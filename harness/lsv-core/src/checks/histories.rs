//! C01, C02, C03: plain history exploration with different generator profiles.

use super::common::*;
use crate::generate::{Profile, history_strategy};
use crate::ir::History;
use crate::runner::*;
use std::time::Instant;

pub const ASSUME_HIST: &[&str] = &[
    "64-bit little-endian target; stable toolchain of /repo",
    "lean_string built with feature verif-hooks (allocator shim, access notes, refcount observer); debug assertions on",
    "reference model: std::string::String driven through the same calls",
    "bounds: histories up to the stated number of operations over at most 6 handles, texts up to the stated size",
];

#[allow(dead_code)]
fn explore(prop: &'static str, tier: Tier, seed: u64, profiles: Vec<(Profile, u32)>, rule: fn(&crate::step::Ctx) -> bool, rule_text: &str) -> Verdict {
    explore_with(&|_m: &mut Merged| {}, prop, tier, seed, profiles, rule, rule_text)
}

#[allow(clippy::too_many_arguments)]
fn explore_with(
    extra: &dyn Fn(&mut Merged),
    prop: &'static str,
    tier: Tier,
    seed: u64,
    profiles: Vec<(Profile, u32)>,
    rule: fn(&crate::step::Ctx) -> bool,
    rule_text: &str,
) -> Verdict {
    let t0 = Instant::now();
    let mut merged = Merged::new();
    for (i, (p, cases)) in profiles.into_iter().enumerate() {
        let m = run_sharded(prop, seed, i as u64, cases, || history_strategy(&p), plain_history_case(prop, rule));
        merged.merge(m);
        if merged.violation.is_some() {
            break;
        }
    }
    if merged.violation.is_none() {
        extra(&mut merged);
    }
    finish(prop, tier, seed, "exploration", rule_text, ASSUME_HIST, &merged, t0.elapsed().as_secs_f64(), "lsv")
}

/// Texts of several MiB (the generated histories stay far below the shim's 1 MiB refusal limit): every way of
/// growing, inserting into, shrinking and sharing them, with the refusal limit raised to 256 MiB.
fn large_text_histories(huge: bool) -> Vec<History> {
    use crate::ir::*;
    let mut out = Vec::new();
    if huge {
        // texts of 64 and 128 MiB (a size-dependent growth policy would sit at such a round number)
        for &n in &[(64usize << 20) + 3, 128 << 20] {
            for variant in 0..3u8 {
                let mut ops = vec![Op::PushStr { slot: 0, text: Text::Repeat { n, unit: 'H' }, try_: false }];
                match variant {
                    0 => ops.push(Op::Reserve { slot: 0, n: Size::Abs(n / 3), try_: true }),
                    1 => ops.push(Op::PushStr { slot: 0, text: Text::Repeat { n: n / 3, unit: 'g' }, try_: true }),
                    _ => {
                        ops.push(Op::Reserve { slot: 0, n: Size::Abs(n / 16), try_: false });
                        ops.push(Op::PushStr { slot: 0, text: Text::FillAll { unit: 'f' }, try_: false });
                    }
                }
                ops.push(Op::Push { slot: 0, ch: '€', try_: false });
                ops.push(Op::Truncate { slot: 0, n: Idx::Raw(40), try_: false });
                ops.push(Op::ShrinkToFit { slot: 0, try_: false });
                out.push(History { ops, plan: Plan::default() });
            }
        }
    }
    for &n in &[1_048_000usize, 1_200_000, 3_000_000, 12_000_000, 17_000_000] {
        for &add in &[1usize, 70_000, 200_000, 600_000] {
            if n > 4_000_000 && add != 1 && add != 600_000 {
                continue;
            }
            for variant in 0..6u8 {
                let big = Text::Repeat { n, unit: 'L' };
                let grow = Text::Repeat { n: add, unit: 'g' };
                let mut ops = vec![Op::PushStr { slot: 0, text: big, try_: false }];
                match variant {
                    0 => ops.push(Op::PushStr { slot: 0, text: grow, try_: false }),
                    1 => {
                        ops.push(Op::Clone { slot: 1, from: 0, via: CloneVia::Clone });
                        ops.push(Op::PushStr { slot: 0, text: grow, try_: true });
                    }
                    2 => ops.push(Op::InsertStr { slot: 0, idx: Idx::Raw(n / 2), text: grow, try_: false }),
                    3 => {
                        ops.push(Op::Reserve { slot: 0, n: Size::Abs(add), try_: false });
                        ops.push(Op::AddAssign { slot: 0, text: grow });
                    }
                    4 => {
                        ops.push(Op::Clone { slot: 1, from: 0, via: CloneVia::Clone });
                        ops.push(Op::Truncate { slot: 0, n: Idx::Raw(n / 3), try_: false });
                        ops.push(Op::Add { slot: 0, text: grow });
                        ops.push(Op::ShrinkToFit { slot: 0, try_: false });
                    }
                    _ => {
                        ops.push(Op::Extend { slot: 0, it: IterSpec { kind: IterKind::Str, items: vec!["é€𝄞".repeat(add / 9 + 1)], slots: vec![], hint: None, panic_at: None, loose: None, fx: None, upper: None } });
                        ops.push(Op::Remove { slot: 0, idx: Idx::Raw(0), try_: false });
                    }
                }
                ops.push(Op::Push { slot: 0, ch: '€', try_: false });
                ops.push(Op::Pop { slot: 0, try_: false });
                ops.push(Op::Compare { a: 0, b: 1 });
                out.push(History { ops, plan: Plan::default() });
            }
        }
    }
    // capacities around every MiB-scale power of two (where an allocation-size rounding could sit): the promised room
    // is there, and filling it exactly neither reallocates nor moves the text
    for k in 21..=24u32 {
        for mult in [1usize, 3] {
            let base = mult << k;
            if base > (24 << 20) {
                continue;
            }
            for d in [0isize, 1, 2, 7, 8, 9, 15, 16, 17, 31, 32, 33, 4095, 4096, -1, -16] {
                let n = (base as isize - d) as usize;
                for variant in 0..3u8 {
                    let fill = matches!(d, 0 | 1 | 15 | 16 | -1) && (k < 24 || variant == 0);
                    let mut ops = match variant {
                        0 => vec![Op::WithCapacity { slot: 0, n: Size::Abs(n), try_: false }],
                        1 => vec![Op::New { slot: 0 }, Op::Reserve { slot: 0, n: Size::Abs(n), try_: true }],
                        _ => vec![
                            Op::FromText { slot: 0, via: Via::Str, text: "a heap text of thirty-two bytes.é".into() },
                            Op::Reserve { slot: 0, n: Size::Abs(n), try_: false },
                        ],
                    };
                    ops.push(Op::PushStr { slot: 0, text: Text::Lit("head-€".into()), try_: false });
                    if fill {
                        ops.push(Op::PushStr { slot: 0, text: Text::FillAll { unit: 'f' }, try_: false });
                    }
                    ops.push(Op::Compare { a: 0, b: 0 });
                    out.push(History { ops, plan: Plan::default() });
                }
            }
        }
    }
    out
}

pub fn run_large_texts(prop: &'static str) -> Merged {
    use crate::ir::History;
    // the six 64 / 128 MiB histories only where capacities are the subject (they cost about a second each)
    let list: Vec<History> = large_text_histories(matches!(prop, "C11" | "C12"));
    run_parallel(|shard| {
        let mut m = Merged::new();
        let mut cur = CurrentFile::open(prop, 64 + shard);
        let mut i = shard;
        while i < list.len() {
            let h = &list[i];
            let mut case = history_value(h);
            case["giant_limit"] = serde_json::json!(256u64 << 20);
            cur.record(&case);
            let res = crate::history::run_history_with(h, 256 << 20, Some(prop));
            let mut st = CaseStats::default();
            let mut v = account(prop, h, &res, true, &mut st);
            if let Some(v) = v.as_mut() {
                v.case = case.clone();
            }
            m.absorb(st);
            *m.counters.entry("large_text_histories".into()).or_insert(0) += 1;
            if let Some(v) = v {
                m.violation = Some(v);
                break;
            }
            i += SHARDS;
        }
        cur.clear();
        m
    })
}

pub fn c01(tier: Tier, seed: u64) -> Verdict {
    let n = tier.pick(12_000, 400_000);
    let long = Profile { max_ops: tier.pick(40, 120), ..Profile::base() };
    explore_with(
        &|merged: &mut Merged| {
            merged.merge(run_large_texts("C01"));
            if merged.violation.is_none() {
                // every operation in every storage state of the catalogue (incl. heap buffers smaller than 16 bytes)
                let cat = super::enumerators::catalogue(false);
                merged.merge(super::enumerators::run_history_list("C01", cat.len(), |i| cat[i].clone(), |_| true));
            }
        },
        "C01",
        tier,
        seed,
        vec![
            (long, n),
            (Profile::sharing(), n / 2),
            (Profile::statics(), n / 4),
            (Profile::capacity(), n / 4),
            // long texts (block-sized and beyond) through every text-taking operation
            (Profile { max_text: 6000, huge_texts: true, max_ops: 16, ..Profile::base() }, n / 8),
            // callbacks that panic are legal arguments too: String is driven through the same panicking call
            (Profile { max_ops: 20, ..Profile::panics() }, n / 8),
            // iterators whose size hints are wrong in either direction are legal arguments as well
            (Profile { max_ops: 16, lying_hints: true, w_extend: 26, w_convert: 10, ..Profile::base() }, n / 8),
        ],
        |c| c.tags.contains("transition") && c.tags.contains("mut_non_inline"),
        "histories generated by proptest (weighted operation grammar over 6 slots, texts biased to the 16-byte limit, mixed UTF-8 widths); non-trivial = history with >= 1 storage-state transition and >= 1 mutator applied to a non-inline handle; distinct = distinct history digests",
    )
}

pub fn c02(tier: Tier, seed: u64) -> Verdict {
    let n = tier.pick(14_000, 400_000);
    explore_with(
        &|merged: &mut Merged| {
            // "successful, failing or panicking": operations on shared buffers with every allocator request failing
            // in turn (the copy made to stop sharing is the request that matters), on the catalogue and on histories
            let cat = super::enumerators::catalogue(false);
            let case = super::enumerators::fault_case("C02", false);
            merged.merge(super::enumerators::run_catalogue("C02", &cat, &case));
            if merged.violation.is_none() {
                let nf = tier.pick(2500, 40_000);
                let p = Profile { w_clone: 30, w_trunc: 14, ..Profile::faults() };
                merged.merge(run_sharded("C02", seed, 100, nf, || history_strategy(&p), super::enumerators::fault_case("C02", false)));
            }
            if merged.violation.is_none() {
                // the argument of the operation reads the buffer the target still shares (s.push_str(&s.clone()), ...)
                let mut m = Merged::new();
                'o: for state in 0..super::alias::STATES {
                    for op in 0..super::alias::OPS {
                        for idx in 0..super::alias::IDXS {
                            m.evaluations += 1;
                            if let Some((clause, detail)) = super::alias::alias_case(state, op, idx) {
                                m.violation = Some(Violation { case: serde_json::json!({"kind": "alias", "state": state, "op": op, "idx": idx}), clause, step: 0, detail });
                                break 'o;
                            }
                            if state >= 2 {
                                m.distinct.insert(digest(&("alias", state, op, idx)));
                            }
                        }
                    }
                }
                merged.merge(m);
            }
        },
        "C02",
        tier,
        seed,
        vec![(Profile::sharing(), n), (Profile::statics(), n / 3), (Profile { giant_sizes: true, callback_panics: true, lying_hints: true, w_extend: 12, ..Profile::sharing() }, n / 3)],
        |c| c.tags.contains("shared_mut"),
        "sharing-heavy histories (clone weight x3, 4 slots), plus the operation catalogue and sharing-heavy histories re-run with each allocator request failing in turn; non-trivial = >= 1 step that mutates/truncates/shrinks/reserves/clears/reassigns/drops a handle while another live handle shares its heap buffer or static text; distinct history digests",
    )
}

pub fn c03(tier: Tier, seed: u64) -> Verdict {
    let n = tier.pick(12_000, 400_000);
    explore_with(
        &|merged: &mut Merged| {
            let cat = super::enumerators::catalogue(false);
            merged.merge(super::enumerators::run_history_list("C03", cat.len(), |i| cat[i].clone(), |_| true));
            if merged.violation.is_some() {
                return;
            }
            // error and unwind paths: injected allocation failures and callback panics
            let nf = tier.pick(2500, 40_000);
            let m = run_sharded("C03", seed, 100, nf, || history_strategy(&Profile { w_clone: 24, ..Profile::faults() }), super::enumerators::fault_case("C03", false));
            merged.merge(m);
            if merged.violation.is_none() {
                let np = tier.pick(400, 8000);
                let base = Profile { callback_panics: false, w_clone: 22, lying_hints: true, ..Profile::panics() };
                let m = run_sharded("C03", seed, 101, np, || history_strategy(&base), super::enumerators::panic_case("C03", 24));
                merged.merge(m);
            }
        },
        "C03",
        tier,
        seed,
        vec![
            (Profile::sharing(), n),
            (Profile { giant_sizes: true, lying_hints: true, ..Profile::sharing() }, n / 2),
            (Profile { callback_panics: true, ..Profile::panics() }, n / 2),
            (Profile::base(), n / 2),
        ],
        |c| c.tags.contains("shared_block_freed"),
        "the whole check runs twice: with an engine built without debug assertions (what the crate's debug_assert!s would stop is then seen by the shadow heap as the out-of-bounds access it is in a release build; counter noassert_build_evaluations) and with debug assertions; each pass: the operation catalogue (every operation x 9 storage states, incl. heap buffers below 16 bytes), histories incl. failing (giant sizes) and panicking (callbacks) operations and a second thread acting at the crate's hook events, plus histories re-run with every allocator request failing in turn and with callbacks panicking at every position (error and unwind paths); non-trivial = a heap block reached reference count >= 2 and was freed before the end; distinct history digests",
    )
}
