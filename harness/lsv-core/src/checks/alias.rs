//! C02 alias sweep: an operation whose *argument* reads the very buffer the target still shares
//! (`s.push_str(&s.clone())`, `s.extend(alias.chars())`, `s.clone_from(&alias)`, ...), over every storage state.
//! Oracle: String doing the same with a copy of the text; the alias and any other sibling read what they read
//! before; the shadow heap reports nothing; nothing is left allocated.
use lean_string::LeanString;
use std::fmt::Write as _;

pub const STATES: u8 = 9;
pub const OPS: u8 = 13;
pub const IDXS: u8 = 3;

const SHORT: &str = "hé€llo";
const FULL: &str = "0123456789abcd\u{e9}"; // 16 bytes
const LONG: &str = "a long text: é€😀 that does not fit inline, 0123456789";
static STATIC_LONG: &str = "a static text: é€😀 that does not fit inline, 0123456789";

/// builds the target in storage state `state`; returns (target, sibling kept alive)
fn build(state: u8) -> (LeanString, Option<LeanString>) {
    match state {
        0 => (LeanString::from(SHORT), None),
        1 => (LeanString::from(FULL), None),
        2 => (LeanString::from_static_str(STATIC_LONG), None),
        3 => {
            let mut s = LeanString::from_static_str(STATIC_LONG);
            s.truncate(10);
            (s, None)
        }
        4 => (LeanString::from(LONG), None),
        5 => {
            let mut s = LeanString::with_capacity(LONG.len() + 20);
            s.push_str(LONG);
            (s, None)
        }
        6 => {
            let s = LeanString::from(LONG);
            let keep = s.clone();
            (s, Some(keep))
        }
        7 => {
            let keep = LeanString::from(LONG);
            let mut s = keep.clone();
            s.truncate(13);
            (s, Some(keep))
        }
        _ => {
            // room for several copies of the text: appends fit the capacity, were the buffer not shared with the alias
            let mut s = LeanString::with_capacity(LONG.len() * 5);
            s.push_str(LONG);
            (s, None)
        }
    }
}

fn boundary(t: &str, sel: u8) -> usize {
    match sel {
        0 => 0,
        1 => {
            let mut i = t.len() / 2;
            while !t.is_char_boundary(i) {
                i += 1;
            }
            i
        }
        _ => t.len(),
    }
}

/// one case; None = everything as with String
pub fn alias_case(state: u8, op: u8, idx_sel: u8) -> Option<(String, String)> {
    crate::outcome::silence_panics();
    crate::shadow::with(|h| h.begin_case());
    let (mut s, keep) = build(state);
    let keep_text = keep.as_ref().map(|k| k.as_str().to_string());
    let t0 = s.as_str().to_string();
    let mut model = t0.clone();
    let arg = t0.clone();
    let alias = s.clone();
    let idx = boundary(&t0, idx_sel);
    let name;
    let r = std::panic::catch_unwind(std::panic::AssertUnwindSafe(|| match op {
        0 => s.push_str(alias.as_str()),
        1 => s.insert_str(idx, alias.as_str()),
        2 => s += alias.as_str(),
        3 => s = std::mem::take(&mut s) + alias.as_str(),
        4 => s.extend([alias.as_str(), alias.as_str()]),
        5 => s.extend([alias.clone(), alias.clone()]),
        6 => write!(s, "{alias}").unwrap(),
        7 => write!(s, "<{alias}|{alias:?}>").unwrap(),
        8 => {
            s.push('x');
            s.clone_from(&alias)
        }
        9 => s.extend(alias.chars()),
        10 => s.retain(|c| alias.as_str().chars().filter(|x| *x == c).count() % 2 == 1),
        11 => {
            if let Some(c) = alias.chars().last() {
                s.insert(idx, c)
            }
        }
        _ => {
            s.truncate(idx);
            s.push_str(&alias[idx..]);
            s.push_str(alias.as_str())
        }
    }));
    match op {
        0 => { name = "push_str(alias)"; model.push_str(&arg) }
        1 => { name = "insert_str(idx, alias)"; model.insert_str(idx, &arg) }
        2 => { name = "+= alias"; model += &arg }
        3 => { name = "s + alias"; model = std::mem::take(&mut model) + &arg }
        4 => { name = "extend([&alias, &alias])"; model.extend([arg.as_str(), arg.as_str()]) }
        5 => { name = "extend([alias.clone(), alias.clone()])"; model.extend([arg.clone(), arg.clone()]) }
        6 => { name = "write!(\"{alias}\")"; write!(model, "{arg}").unwrap() }
        7 => { name = "write!(\"<{alias}|{alias:?}>\")"; write!(model, "<{arg}|{arg:?}>").unwrap() }
        8 => { name = "push then clone_from(&alias)"; model.push('x'); model.clone_from(&arg) }
        9 => { name = "extend(alias.chars())"; model.extend(arg.chars()) }
        10 => { name = "retain(by counts in alias)"; model.retain(|c| arg.chars().filter(|x| *x == c).count() % 2 == 1) }
        11 => { name = "insert(idx, last char of alias)"; if let Some(c) = arg.chars().last() { model.insert(idx, c) } }
        _ => { name = "truncate(idx); push_str(&alias[idx..]); push_str(alias)"; model.truncate(idx); model.push_str(&arg[idx..]); model.push_str(&arg) }
    }
    let what = format!("state {state}, {name}, idx {idx}");
    let mut bad: Option<(String, String)> = None;
    if r.is_err() {
        bad = Some(("C02.alias_panic".into(), format!("{what}: the call panicked; String does not")));
    } else if s.as_str() != model {
        bad = Some(("C02.alias_value".into(), format!("{what}: the target reads {:?}, String holds {model:?}", s.as_str())));
    } else if alias.as_str() != t0 {
        bad = Some(("C02.text".into(), format!("{what}: the handle passed as the argument now reads {:?}, it read {t0:?}", alias.as_str())));
    } else if keep.as_ref().map(|k| k.as_str().to_string()) != keep_text {
        bad = Some(("C02.text".into(), format!("{what}: the sibling handle now reads {:?}, it read {keep_text:?}", keep.as_ref().map(|k| k.as_str().to_string()))));
    }
    if bad.is_none() && std::str::from_utf8(s.as_bytes()).is_err() {
        bad = Some(("C02.alias_value".into(), format!("{what}: the target's bytes are not UTF-8")));
    }
    let dropped = std::panic::catch_unwind(std::panic::AssertUnwindSafe(move || {
        drop(alias);
        drop(s);
        drop(keep);
    }));
    let (live, heap_bad) = crate::shadow::with(|h| {
        h.check_quarantine();
        let v = h.violations.first().map(|v| (v.clause, v.detail.clone()));
        let l = h.end_case();
        let v = v.or_else(|| h.violations.first().map(|v| (v.clause, v.detail.clone())));
        (l, v)
    });
    if bad.is_none() {
        if dropped.is_err() {
            bad = Some(("C02.alias_panic".into(), format!("{what}: dropping the handles panicked")));
        } else if let Some((c, d)) = heap_bad {
            bad = Some((format!("C02.alias_heap_{c}"), format!("{what}: {d}")));
        } else if live != 0 {
            bad = Some(("C02.alias_leak".into(), format!("{what}: {live} block(s) still allocated after all handles were dropped")));
        }
    }
    bad
}
