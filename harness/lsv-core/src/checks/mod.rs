//! The checks, one entry point per property.

pub mod alias;
pub mod common;
pub mod enumerators;
pub mod grids;
pub mod histories;
pub mod matrix;
pub mod replay;
pub mod sweeps;
pub mod values;

use crate::runner::{Tier, Verdict};

pub fn run_check(prop: &str, tier: Tier, seed: u64) -> Option<Verdict> {
    crate::history::assert_layout();
    crate::shadow::install();
    crate::outcome::silence_panics();
    // initialise lazily built tables now: their one-time allocations must not fall into a measured window
    let _ = crate::statics::pool();
    if let Some(v) = replay_corpus(prop, tier, seed) {
        return Some(v);
    }
    Some(match prop {
        "C01" => histories::c01(tier, seed),
        "C02" => histories::c02(tier, seed),
        "C03" => histories::c03(tier, seed),
        "C05" => enumerators::c05(tier, seed),
        "C06" => grids::c06(tier, seed),
        "C07" => grids::c07(tier, seed),
        "C10" => grids::c10(tier, seed),
        "C11" => grids::c11(tier, seed),
        "C12" => grids::c12(tier, seed),
        "C17" => grids::c17(tier, seed),
        "C20" => matrix::c20(tier, seed),
        "C08" => sweeps::c08(tier, seed),
        "C09" => sweeps::c09(tier, seed),
        "C14" => values::c14(tier, seed),
        "C15" => values::c15(tier, seed),
        "C16" => values::c16(tier, seed),
        "C13" => enumerators::c13(tier, seed),
        "C18" => enumerators::c18(tier, seed),
        _ => return None,
    })
}

/// Replay of non-history case kinds (value engines, grids).
pub fn replay_other(_prop: &str, kind: &str, case: &serde_json::Value) -> Option<Vec<(usize, String, String)>> {
    match kind {
        "push_loop" => {
            let n = case.get("n")?.as_u64()? as usize;
            let mix = case.get("mix")?.as_u64()? as usize;
            Some(grids::c12_loop_case(n, mix).map(|v| vec![(0, v.clause, v.detail)]).unwrap_or_default())
        }
        "alias" => {
            let d = alias::alias_case(case.get("state")?.as_u64()? as u8, case.get("op")?.as_u64()? as u8, case.get("idx")?.as_u64()? as u8);
            Some(d.map(|(c, d)| vec![(0, c, d)]).unwrap_or_default())
        }
        "string_extend" => {
            let d = enumerators::string_extend_case(case.get("items")?.as_u64()? as usize, case.get("k")?.as_u64()? as u16, case.get("hinted")?.as_bool()?);
            Some(d.map(|d| vec![(0, "C18.string_extend".to_string(), d)]).unwrap_or_default())
        }
        "bytes" | "units" | "value" | "bytes_range" => values::replay_value(case),
        "niche" | "clone_sweep" | "ctor" | "decoder" | "decoder_growth" | "short_value" | "global_refusal" => sweeps::replay_sweep(kind, case),
        _ => None,
    }
}

/// Regression tier: every saved case of this property under /verif/corpus is re-executed first.
/// A case that fails again is reported like any other violation (a fixed finding suppresses nothing).
fn replay_corpus(prop: &str, tier: Tier, seed: u64) -> Option<Verdict> {
    let dir = crate::runner::verif_dir().join("corpus");
    let mut names: Vec<std::path::PathBuf> = std::fs::read_dir(&dir).ok()?.filter_map(|e| e.ok().map(|e| e.path())).collect();
    names.sort();
    let mut n = 0;
    for path in names {
        let Ok(bytes) = std::fs::read(&path) else { continue };
        let Ok(doc) = serde_json::from_slice::<serde_json::Value>(&bytes) else { continue };
        if doc.get("property").and_then(|p| p.as_str()) != Some(prop) {
            continue;
        }
        let Some(case) = doc.get("case") else { continue };
        let Some(fails) = replay::replay_case(prop, case) else { continue };
        n += 1;
        if let Some((step, clause, detail)) = fails.into_iter().find(|(_, c, _)| c.starts_with(prop)) {
            let v = crate::runner::Violation { case: case.clone(), clause: clause.clone(), step, detail: detail.clone() };
            if let Some(what) = crate::runner::known_finding(prop, &v) {
                // still listed as an open finding: say so and keep exploring
                println!("KNOWN-FINDING: property={prop} {what} (corpus case {})", path.display());
                continue;
            }
            println!("regression corpus case {} fails again", path.display());
            let mut m = crate::runner::Merged::new();
            m.evaluations = n;
            m.samples.push(case.clone());
            m.violation = Some(crate::runner::Violation { case: case.clone(), clause, step, detail });
            return Some(crate::runner::finish(prop, tier, seed, "exploration", "regression corpus replay (saved cases of earlier findings)", &[], &m, 0.0, "lsv"));
        }
    }
    if n > 0 {
        eprintln!("regression corpus: {n} saved case(s) of {prop} pass");
    }
    None
}
