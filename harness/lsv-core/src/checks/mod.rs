//! The checks, one entry point per property.

pub mod common;
pub mod enumerators;
pub mod histories;
pub mod replay;

use crate::runner::{Tier, Verdict};

pub fn run_check(prop: &str, tier: Tier, seed: u64) -> Option<Verdict> {
    crate::history::assert_layout();
    crate::shadow::install();
    crate::outcome::silence_panics();
    Some(match prop {
        "C01" => histories::c01(tier, seed),
        "C02" => histories::c02(tier, seed),
        "C03" => histories::c03(tier, seed),
        "C05" => enumerators::c05(tier, seed),
        "C13" => enumerators::c13(tier, seed),
        "C18" => enumerators::c18(tier, seed),
        _ => return None,
    })
}

/// Replay of non-history case kinds (value engines, grids).
pub fn replay_other(_prop: &str, _kind: &str, _case: &serde_json::Value) -> Option<Vec<(usize, String, String)>> {
    None
}
