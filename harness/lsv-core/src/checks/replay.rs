//! Replay of saved cases and triage of engine crashes.

use super::common::*;
use crate::history::run_history_for;
use crate::runner::*;
use serde_json::{Value, json};
use std::path::Path;
use std::process::Command;

const CRASH_OWNERS: &[&str] = &["C01", "C03", "C04", "C05", "C06", "C07", "C14", "C15", "C16", "C18", "C19", "C20"];

/// Executes one saved case. Exit code 1 (and a VIOLATION line) if the recorded property is violated.
pub fn replay_file(path: &str) -> i32 {
    crate::history::assert_layout();
    crate::shadow::install();
    crate::outcome::silence_panics();
    let _ = crate::statics::pool();
    let Ok(bytes) = std::fs::read(path) else {
        eprintln!("cannot read {path}");
        return 2;
    };
    let Ok(doc) = serde_json::from_slice::<Value>(&bytes) else {
        eprintln!("{path} is not JSON");
        return 2;
    };
    let prop = doc.get("property").and_then(|p| p.as_str()).unwrap_or("C01").to_string();
    let case = doc.get("case").cloned().unwrap_or(doc.clone());
    let fails = replay_case(&prop, &case);
    match fails {
        None => {
            eprintln!("unsupported case kind in {path}");
            2
        }
        Some(list) => {
            let mut own = false;
            for (step, clause, detail) in &list {
                println!("step {step}: {clause}: {detail}");
                if clause.starts_with(&prop) {
                    own = true;
                }
            }
            if own {
                println!("VIOLATION property={prop} replay={path}");
                1
            } else {
                println!("OK replay of {path}: property {prop} holds on this case ({} foreign failure(s))", list.len());
                0
            }
        }
    }
}

/// Returns the failing clauses of a case, or None if the case kind is unknown.
pub fn replay_case(prop: &str, case: &Value) -> Option<Vec<(usize, String, String)>> {
    let kind = case.get("kind").and_then(|k| k.as_str()).unwrap_or("history");
    match kind {
        "history" => {
            let h = history_from_value(case)?;
            let res = match case.get("giant_limit").and_then(|g| g.as_u64()) {
                Some(limit) => crate::history::run_history_with(&h, limit as usize, Some(prop)),
                None => run_history_for(&h, prop),
            };
            Some(res.failures.iter().map(|(s, f)| (*s, f.clause.clone(), f.detail.clone())).collect())
        }
        _ => super::replay_other(prop, kind, case),
    }
}

fn run_child_on(exe: &Path, file: &Path) -> Option<i32> {
    let st = Command::new(exe).arg("replay").arg(file).stdout(std::process::Stdio::null()).stderr(std::process::Stdio::null()).status().ok()?;
    st.code()
}

/// The engine died on a signal: find the recorded case that reproduces the crash, minimise it.
pub fn triage_crash(prop: &str, tier: Tier, seed: u64, exe: &Path) -> i32 {
    let dir = verif_dir().join("work").join(prop);
    let mut culprit: Option<Value> = None;
    let mut pending: Option<Value> = None;
    let mut recorded: Vec<std::path::PathBuf> = std::fs::read_dir(&dir)
        .map(|rd| rd.filter_map(|e| e.ok().map(|e| e.path())).filter(|p| p.file_name().and_then(|n| n.to_str()).is_some_and(|n| n.starts_with("current-"))).collect())
        .unwrap_or_default();
    recorded.sort();
    for (shard, p) in recorded.into_iter().enumerate() {
        let Ok(bytes) = std::fs::read(&p) else { continue };
        if bytes.is_empty() {
            continue;
        }
        let Ok(case) = serde_json::from_slice::<Value>(&bytes) else { continue };
        let f = dir.join(format!("triage-{shard}.json"));
        let _ = std::fs::write(&f, serde_json::to_vec(&json!({"property": prop, "case": case})).unwrap());
        match run_child_on(exe, &f) {
            None => {
                culprit = Some(case);
                break;
            }
            Some(1) => {
                // a deterministic violation of this property that was about to be reported when another thread
                // crashed (or whose damage made the process die later): remembered, reported if nothing crashes alone
                if pending.is_none() {
                    pending = Some(case.clone());
                }
            }
            _ => {}
        }
    }
    if culprit.is_none() {
        if let Some(case) = pending {
            // the child replayed this case without dying, so it is safe to run here for the details
            crate::history::assert_layout();
            crate::shadow::install();
            crate::outcome::silence_panics();
            let _ = crate::statics::pool();
            if let Some(list) = replay_case(prop, &case) {
                if let Some((step, clause, detail)) = list.iter().find(|(_, c, _)| c.starts_with(prop)) {
                    let mut merged = Merged::new();
                    merged.evaluations = 1;
                    merged.violation = Some(Violation { case, clause: clause.clone(), step: *step, detail: detail.clone() });
                    let v = finish(prop, tier, seed, "exploration", "crash triage: a recorded case violates the property deterministically", &[], &merged, 0.0, "lsv");
                    return v.exit_code;
                }
            }
        }
    }
    let Some(mut case) = culprit else {
        eprintln!("INCONCLUSIVE property={prop}: engine died on a signal and no recorded case reproduces it alone");
        return 2;
    };
    // a property that does not own crashes: exclude the crashing history by construction and let the supervisor
    // search on behind it (exit code 3 = "skip recorded, run again")
    {
        let niche = prop == "C20" && case.get("kind").and_then(|k| k.as_str()) == Some("niche");
        let stat = prop == "C10" && case.to_string().contains("\"from_static\"");
        if !CRASH_OWNERS.contains(&prop) && !niche && !stat && case.get("kind").and_then(|k| k.as_str()) == Some("history") {
            if let Some(h) = history_from_value(&case) {
                use std::io::Write;
                let f = dir.join("skip.txt");
                if let Ok(mut fh) = std::fs::OpenOptions::new().create(true).append(true).open(&f) {
                    let _ = writeln!(fh, "{}", digest(&h));
                    return 3;
                }
            }
        }
    }
    // delta debugging over the operation list
    if case.get("kind").and_then(|k| k.as_str()) == Some("history") {
        let mut budget = 300;
        loop {
            let ops = case["ops"].as_array().cloned().unwrap_or_default();
            let mut shrunk = false;
            for i in (0..ops.len()).rev() {
                if budget == 0 {
                    break;
                }
                budget -= 1;
                let mut cand = ops.clone();
                cand.remove(i);
                let mut c2 = case.clone();
                c2["ops"] = Value::Array(cand);
                let f = dir.join("triage-min.json");
                let _ = std::fs::write(&f, serde_json::to_vec(&json!({"property": prop, "case": c2})).unwrap());
                if run_child_on(exe, &f).is_none() {
                    case = c2;
                    shrunk = true;
                    break;
                }
            }
            if !shrunk || budget == 0 {
                break;
            }
        }
    }
    let niche_crash = prop == "C20" && case.get("kind").and_then(|k| k.as_str()) == Some("niche");
    // C10: "moves the handle to its own storage with the correct contents" - a crash of a history over static handles
    let static_crash = prop == "C10" && case.to_string().contains("\"from_static\"");
    // a recorded range of enumerated inputs: bisect it down to the first input that crashes
    if case.get("kind").and_then(|k| k.as_str()) == Some("bytes_range") {
        let stride = case["stride"].as_u64().unwrap_or(1).max(1);
        let (mut lo, mut hi) = (case["from"].as_u64().unwrap_or(0), case["to"].as_u64().unwrap_or(0));
        while hi > lo + stride {
            let steps = (hi - lo).div_ceil(stride);
            let mid = lo + (steps / 2) * stride;
            let mut c2 = case.clone();
            c2["from"] = json!(lo);
            c2["to"] = json!(mid);
            let f = dir.join("triage-min.json");
            let _ = std::fs::write(&f, serde_json::to_vec(&json!({"property": prop, "case": c2})).unwrap());
            if run_child_on(exe, &f).is_none() {
                hi = mid;
            } else {
                lo = mid;
            }
        }
        case["from"] = json!(lo);
        case["to"] = json!(hi);
    }
    if !CRASH_OWNERS.contains(&prop) && !niche_crash && !static_crash {
        eprintln!(
            "INCONCLUSIVE property={prop}: the engine crashed (signal) on a recorded case; crashes are reported by the checks of C01/C03/C05/C06/C07/C18/C20, not by this one"
        );
        return 2;
    }
    let mut merged = Merged::new();
    merged.evaluations = 1;
    merged.violation = Some(Violation {
        case,
        clause: format!("{prop}.crash"),
        step: 0,
        detail: "the process died on a signal (memory fault or abort) while executing this case".into(),
    });
    let v = finish(prop, tier, seed, "exploration", "crash triage", &[], &merged, 0.0, "lsv");
    v.exit_code
}
