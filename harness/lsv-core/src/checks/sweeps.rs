//! Direct sweeps: C08 (clone sweep over lengths and states), C09 (constructor sweep and inline
//! edit histories), C20 (layout, niche sweep).

use super::common::*;
use super::histories::ASSUME_HIST;
use crate::generate::{Profile, history_strategy};
use crate::runner::*;
use crate::shadow;
use crate::step::Ctx;
use crate::world::raw_bytes;
use lean_string::{LeanString, ToLeanString};
use serde_json::{Value, json};
use std::borrow::Cow;
use std::str::FromStr;
use std::time::Instant;

fn requests() -> u64 {
    shadow::with(|h| h.requests_total)
}
fn heap_state() -> (usize, Option<String>) {
    shadow::with(|h| {
        h.check_live_guards();
        (h.live.len(), h.violations.first().map(|v| format!("{}: {}", v.clause, v.detail)))
    })
}

fn text_of_len(len: usize, multi: bool) -> String {
    let mut s = String::with_capacity(len);
    let units = if multi { ["é", "€", "𝄞", "q"] } else { ["a", "b", "c", "d"] };
    let mut i = 0;
    while s.len() < len {
        let u = units[i % 4];
        if s.len() + u.len() <= len { s.push_str(u) } else { s.push('.') }
        i += 1;
    }
    s
}

// ------------------------------------------------------------------------------------------ C08

/// state: 0 inline/heap exact (From<&str>), 1 static, 2 heap with spare capacity, 3 handle shorter than
/// its buffer's other user, 4 sole survivor of a shared buffer
pub fn clone_sweep_case(len: usize, state: usize, clones: usize, multi: bool, bump: usize) -> Result<bool, (String, String)> {
    // a panic of a clone-like call (reference count "overflow" far below what the count can hold) is a finding,
    // not a harness error
    match std::panic::catch_unwind(|| clone_sweep_inner(len, state, clones, multi, bump)) {
        Ok(r) => r,
        Err(p) => {
            let msg = p.downcast_ref::<String>().cloned().or_else(|| p.downcast_ref::<&str>().map(|s| s.to_string())).unwrap_or_default();
            Err(("C08.any_number".to_string(), format!("a clone-like call of a {len}-byte string (state {state}) whose buffer already has {bump} more users panicked: {msg}")))
        }
    }
}

/// `bump`: the buffer's reference count is raised by this much before the clones (as if that many other handles
/// existed) and lowered again before anything is dropped
fn clone_sweep_inner(len: usize, state: usize, clones: usize, multi: bool, bump: usize) -> Result<bool, (String, String)> {
    shadow::with(|h| {
        h.begin_case();
        h.giant_limit = 64 << 20;
    });
    let text = text_of_len(len, multi);
    let fail = |c: &str, d: String| Err((c.to_string(), d));
    let mut other: Option<LeanString> = None;
    let src: LeanString = match state {
        1 => LeanString::from_static_str(Box::leak(text.clone().into_boxed_str())),
        2 => {
            let mut s = LeanString::with_capacity(len + 50);
            s.push_str(&text);
            s
        }
        3 => {
            let long = LeanString::from(format!("{text}+longer tail of the other user").as_str());
            let mut s = long.clone();
            s.truncate(len);
            other = Some(long);
            s
        }
        4 => {
            let long = LeanString::from(format!("{text}+longer tail").as_str());
            let mut s = long.clone();
            s.truncate(len);
            drop(long);
            s
        }
        _ => LeanString::from(text.as_str()),
    };
    let heap = src.is_heap_allocated();
    let src_ptr = src.as_ptr() as usize;
    let inline = !heap && src_ptr >= &src as *const _ as usize && src_ptr < &src as *const _ as usize + 16;
    let mut base_rc = shadow::refcount_of(&src);
    if bump > 0 {
        match base_rc {
            Some(rc) => {
                shadow::set_refcount(&src, rc + bump);
                base_rc = Some(rc + bump);
            }
            None => return Ok(false),
        }
    }
    let before = requests();
    let mut copies: Vec<LeanString> = Vec::with_capacity(clones);
    let mut other_allocs = 0u64;
    for i in 0..clones {
        let g0 = shadow::global_allocs();
        let c = match i % 5 {
            0 => src.clone(),
            1 => LeanString::from(&src),
            2 => src.to_lean_string(),
            3 => match src.try_to_lean_string() {
                Ok(c) => c,
                Err(e) => return fail("C08.no_alloc", format!("try_to_lean_string of a LeanString failed: {e}")),
            },
            _ => {
                let mut c = LeanString::from("previous value that is long enough for the heap");
                let r0 = requests();
                let g1 = shadow::global_allocs();
                c.clone_from(&src);
                other_allocs += shadow::global_allocs() - g1;
                if requests() != r0 {
                    return fail("C08.no_alloc", format!("clone_from a {len}-byte string issued an allocator request"));
                }
                c
            }
        };
        if i % 5 != 4 {
            other_allocs += shadow::global_allocs() - g0;
        }
        copies.push(c);
    }
    if other_allocs != 0 {
        return fail("C08.no_alloc", format!("{clones} clone-like call(s) of a {len}-byte string (state {state}) performed {other_allocs} heap allocation(s) outside the string buffers"));
    }
    // clone_from's previous value was allocated by the sweep itself: count only clone-like calls
    let extra = (0..clones).filter(|i| i % 5 == 4).count() as u64;
    let used = requests() - before - extra;
    if used != 0 {
        return fail("C08.no_alloc", format!("{clones} clone-like call(s) of a {len}-byte string (state {state}) issued {used} allocator request(s)"));
    }
    for (i, c) in copies.iter().enumerate() {
        if c != &src || c.as_str() != text {
            return fail("C08.equal", format!("copy #{i} of a {len}-byte string reads {:?}", &c.as_str()[..c.len().min(40)]));
        }
        if !inline {
            if c.as_ptr() as usize != src_ptr || c.is_heap_allocated() != heap {
                return fail("C08.same_ptr", format!("copy #{i} of a {len}-byte {} string does not point at the original's bytes", if heap { "heap" } else { "static" }));
            }
        } else if raw_bytes(c) != raw_bytes(&src) {
            return fail("C08.inline_copy", format!("copy #{i} of an inline string is not a 2-word copy"));
        }
    }
    if heap {
        let want = base_rc.unwrap_or(1) + clones;
        if shadow::refcount_of(&src) != Some(want) {
            return fail("C03.refcount", format!("after {clones} clones the reference count is {:?}, expected {want}", shadow::refcount_of(&src)));
        }
        if bump > 0 {
            shadow::set_refcount(&src, want - bump);
        }
    }
    // dropping either side leaves the other intact
    let keep_first = copies.len() > 1;
    let mut survivors: Vec<LeanString> = Vec::new();
    for (i, c) in copies.into_iter().enumerate() {
        if keep_first && i % 2 == 0 {
            survivors.push(c);
        }
    }
    if src.as_str() != text {
        return fail("C08.drop_intact", format!("after dropping copies the original reads {:?}", &src.as_str()[..src.len().min(40)]));
    }
    drop(src);
    for s in &survivors {
        if s.as_str() != text {
            return fail("C08.drop_intact", "after dropping the original a copy no longer reads the text".to_string());
        }
    }
    drop(survivors);
    drop(other);
    let (live, viol) = heap_state();
    shadow::with(|h| {
        h.end_case();
    });
    if let Some(v) = viol {
        return fail("C03.heap", v);
    }
    if live != 0 {
        return fail("C03.leak", format!("{live} block(s) left after the clone sweep case"));
    }
    Ok(!inline)
}

pub fn c08(tier: Tier, seed: u64) -> Verdict {
    let t0 = Instant::now();
    let mut lens: Vec<usize> = (0..=64).collect();
    lens.extend([100, 255, 256, 1024, 65536]);
    lens.push(tier.pick(1 << 20, 4 << 20));
    let clone_counts: Vec<usize> = tier.pick(vec![1, 2, 5, 64], (1..=64).collect());
    let mut cases: Vec<(usize, usize, usize, bool, usize)> = Vec::new();
    for &len in &lens {
        for state in 0..5 {
            for &n in &clone_counts {
                for multi in [false, true] {
                    if len > 4096 && (multi || n > 5) {
                        continue;
                    }
                    cases.push((len, state, n, multi, 0));
                }
            }
        }
    }
    // "any number of clones": buffers that already have very many users (reached by overwriting the count, which
    // would otherwise take minutes to hours of cloning per case)
    let top = isize::MAX as usize;
    let mut bumps: Vec<usize> = vec![255, 256, 65_535, 65_536, (1 << 24) - 3, (1 << 31) - 70, (1 << 31) - 3, 1 << 31, top / 2 - 3, top - 1000];
    #[cfg(target_pointer_width = "64")]
    bumps.extend([(1usize << 32) - 70, (1 << 32) - 3, 1 << 32, 1 << 40, (1 << 48) - 2, (1 << 56) - 3, 1 << 56, (1 << 62) - 3]);
    bumps.retain(|b| *b <= top - 1000);
    bumps.sort_unstable();
    bumps.dedup();
    for &len in &[17usize, 40, 300, 65536] {
        for state in [0usize, 2, 3, 4] {
            for &n in &[1usize, 5, 64] {
                for &b in &bumps {
                    cases.push((len, state, n, false, b));
                }
            }
        }
    }
    let mut merged = run_parallel(|shard| {
        let mut m = Merged::new();
        let mut i = shard;
        while i < cases.len() {
            let (len, state, n, multi, bump) = cases[i];
            m.evaluations += 1;
            match clone_sweep_case(len, state, n, multi, bump) {
                Ok(nt) => {
                    if nt {
                        m.distinct.insert(digest(&cases[i]));
                    }
                    if m.samples.is_empty() && nt {
                        m.samples.push(json!({"kind": "clone_sweep", "len": len, "state": state, "clones": n, "multi": multi, "bump": bump}));
                    }
                }
                Err((clause, detail)) => {
                    if clause.starts_with("C08") {
                        m.violation = Some(Violation {
                            case: json!({"kind": "clone_sweep", "len": len, "state": state, "clones": n, "multi": multi, "bump": bump}),
                            clause,
                            step: 0,
                            detail,
                        });
                        break;
                    }
                    m.abandoned_foreign += 1;
                    *m.classes.entry(format!("foreign.{clause}")).or_insert(0) += 1;
                }
            }
            i += SHARDS;
        }
        m
    });
    merged.counters.insert("sweep_cases".into(), cases.len() as u64);
    if merged.violation.is_none() {
        let rule: fn(&Ctx) -> bool = |c| c.tags.contains("clone_heap_or_static");
        let n = tier.pick(10_000, 300_000);
        for (i, p) in [Profile::sharing(), Profile { w_static: 16, ..Profile::sharing() }].into_iter().enumerate() {
            let m = run_sharded("C08", seed, i as u64, n, || history_strategy(&p), plain_history_case("C08", rule));
            merged.merge(m);
            if merged.violation.is_some() {
                break;
            }
        }
    }
    finish(
        "C08",
        tier,
        seed,
        "exploration",
        "sweep: lengths 0..=64, 100, 255, 256, 1 KiB, 64 KiB, 1 MiB (thorough 4 MiB) x 5 source states (direct, static, spare capacity, handle shorter than the buffer's other user, sole survivor) x {1,2,5,64} (thorough 1..=64) clone-like calls rotating clone / From<&LeanString> / to_lean_string / try_to_lean_string / clone_from, then drops in both orders; the same on heap buffers whose reference count was first raised by 255 ... 2^62 (around every power-of-two boundary a narrower counter could have), standing for that many existing clones; plus every clone-like operation inside sharing-heavy proptest histories; oracle: zero allocator requests, same pointer (heap/static) or equal handle bytes (inline), equality, reference count = live handles; non-trivial = clone-like call on a heap or static source; distinct sweep cases and history digests",
        ASSUME_HIST,
        &merged,
        t0.elapsed().as_secs_f64(),
        "lsv",
    )
}

// ------------------------------------------------------------------------------------------ C09

const ROUTES: [&str; 15] = [
    "from_str",
    "from_string",
    "from_ref_string",
    "from_box_str",
    "from_cow_borrowed",
    "from_cow_owned",
    "parse",
    "from_utf8",
    "string_to_lean_string",
    "from_static_str",
    "from_utf8_unchecked",
    // owned inputs whose own capacity is larger than their text
    "from_string_with_spare_capacity",
    "from_ref_string_with_spare_capacity",
    "from_cow_owned_with_spare_capacity",
    "string_with_spare_capacity_to_lean_string",
];

enum Input<'a> {
    Str(&'a str),
    String(String),
    BoxStr(Box<str>),
    Cow(Cow<'a, str>),
    Static(&'static str),
}

fn prepare(route: usize, text: &str) -> Input<'_> {
    match route {
        11 | 12 | 14 => {
            let mut s = String::with_capacity(text.len() + 48);
            s.push_str(text);
            Input::String(s)
        }
        13 => {
            let mut s = String::with_capacity(text.len() * 2 + 17);
            s.push_str(text);
            Input::Cow(Cow::Owned(s))
        }
        0 | 6 | 7 | 10 => Input::Str(text),
        1 | 2 | 8 => Input::String(text.to_string()),
        3 => Input::BoxStr(text.to_string().into_boxed_str()),
        4 => Input::Cow(Cow::Borrowed(text)),
        5 => Input::Cow(Cow::Owned(text.to_string())),
        _ => Input::Static(Box::leak(text.to_string().into_boxed_str())),
    }
}

/// the conversion itself (the input already exists): this is the window in which allocations are counted
fn convert(route: usize, input: Input<'_>) -> LeanString {
    match (route, input) {
        (0, Input::Str(t)) => LeanString::from(t),
        (1 | 11, Input::String(s)) => LeanString::from(s),
        (2 | 12, Input::String(s)) => LeanString::from(&s),
        (14, Input::String(s)) => s.to_lean_string(),
        (13, Input::Cow(c)) => LeanString::from(c),
        (3, Input::BoxStr(b)) => LeanString::from(b),
        (4 | 5, Input::Cow(c)) => LeanString::from(c),
        (6, Input::Str(t)) => LeanString::from_str(t).unwrap(),
        (7, Input::Str(t)) => LeanString::from_utf8(t.as_bytes()).unwrap(),
        (8, Input::String(s)) => s.to_lean_string(),
        (9, Input::Static(t)) => LeanString::from_static_str(t),
        (_, Input::Str(t)) => unsafe { LeanString::from_utf8_unchecked(t.as_bytes()) },
        _ => unreachable!(),
    }
}

/// C09 constructor clause for one (route, text)
pub fn ctor_case(route: usize, text: &str) -> Result<(), (String, String)> {
    shadow::with(|h| h.begin_case());
    let input = prepare(route, text);
    let g0 = shadow::global_allocs();
    let s = convert(route, input);
    let other_allocs = shadow::global_allocs() - g0;
    let (req, allocs): (u64, Vec<usize>) = shadow::with(|h| {
        (h.requests_total, h.events.iter().filter(|e| e.kind == shadow::EvKind::Alloc).map(|e| e.size).collect())
    });
    let n = text.len();
    let r = (|| {
        if s.as_str() != text {
            return Err(("C01.value".to_string(), format!("{}({text:?}) reads {:?}", ROUTES[route], s.as_str())));
        }
        if other_allocs != 0 {
            // an allocation that is not one of the crate's own buffers (a temporary String, Vec, Box ...)
            return Err((
                if n <= 16 { "C09.short_no_alloc" } else { "C09.long_exact" }.to_string(),
                format!(
                    "{} of a {n}-byte text performed {other_allocs} heap allocation(s) besides the string's own buffer ({} expected in total)",
                    ROUTES[route],
                    if n <= 16 || route == 9 { "none" } else { "exactly one" }
                ),
            ));
        }
        if n <= 16 {
            if req != 0 || s.is_heap_allocated() {
                return Err((
                    "C09.short_no_alloc".to_string(),
                    format!("{} of the {n}-byte text {text:?} (last byte {:#04x}): {req} allocator request(s), is_heap_allocated = {}", ROUTES[route], text.as_bytes().last().copied().unwrap_or(0), s.is_heap_allocated()),
                ));
            }
        } else if route != 9 {
            if req != 1 || allocs.len() != 1 || allocs[0] < n || !s.is_heap_allocated() || s.capacity() != n {
                return Err((
                    "C09.long_exact".to_string(),
                    format!("{} of a {n}-byte text: {req} request(s), alloc sizes {allocs:?}, capacity {}, heap = {}", ROUTES[route], s.capacity(), s.is_heap_allocated()),
                ));
            }
        } else if req != 0 || s.is_heap_allocated() {
            return Err(("C10.from_static".to_string(), format!("from_static_str of {n} bytes allocated")));
        }
        Ok(())
    })();
    drop(s);
    let (live, viol) = heap_state();
    shadow::with(|h| {
        h.end_case();
    });
    r?;
    if let Some(v) = viol {
        return Err(("C03.heap".into(), v));
    }
    if live != 0 {
        return Err(("C03.leak".into(), format!("{live} block(s) left")));
    }
    Ok(())
}

/// The decoders are constructors too ("through every constructor and conversion"): a decoded text of at most 16
/// bytes is stored in the handle, without an allocator request of the crate. kind: 0 from_utf16, 1 from_utf16_lossy,
/// 2 from_utf8_lossy (valid input), 3 from_utf8_lossy (input = text + 0xFF), 4 from_utf16_lossy (input = text + 0xD800)
pub const DECODERS: [&str; 5] = ["from_utf16", "from_utf16_lossy", "from_utf8_lossy", "from_utf8_lossy_invalid_tail", "from_utf16_lossy_lone_surrogate"];
pub fn decoder_case(kind: usize, text: &str) -> Result<bool, (String, String)> {
    let mut units: Vec<u16> = text.encode_utf16().collect();
    let mut bytes: Vec<u8> = text.as_bytes().to_vec();
    let mut want = text.to_string();
    match kind {
        3 => {
            bytes.push(0xFF);
            want.push('\u{FFFD}');
        }
        4 => {
            units.push(0xD800);
            want.push('\u{FFFD}');
        }
        _ => {}
    }
    if want.len() > 16 {
        return Ok(false);
    }
    shadow::with(|h| h.begin_case());
    let s = match kind {
        0 => match LeanString::from_utf16(&units) {
            Ok(s) => s,
            Err(_) => return Err(("C16.decode".into(), format!("from_utf16 rejected the encoding of {text:?}"))),
        },
        1 | 4 => LeanString::from_utf16_lossy(&units),
        _ => LeanString::from_utf8_lossy(&bytes),
    };
    let req = requests();
    let r = if s.as_str() != want {
        Err(("C16.decode".to_string(), format!("{} of {text:?} reads {:?}", DECODERS[kind], s.as_str())))
    } else if req != 0 || s.is_heap_allocated() {
        Err((
            "C09.short_no_alloc".to_string(),
            format!("{} producing the {}-byte text {want:?}: {req} allocator request(s), is_heap_allocated = {}", DECODERS[kind], want.len(), s.is_heap_allocated()),
        ))
    } else {
        Ok(true)
    };
    drop(s);
    shadow::with(|h| {
        h.end_case();
    });
    r
}

fn short_value_case<T: ToLeanString + std::fmt::Display>(v: T, what: &str) -> Result<bool, (String, String)> {
    shadow::with(|h| h.begin_case());
    let want = v.to_string();
    let g0 = shadow::global_allocs();
    let s = v.to_lean_string();
    let other = shadow::global_allocs() - g0;
    let req = requests() + other;
    let heap = s.is_heap_allocated();
    let ok_text = s.as_str() == want;
    drop(s);
    shadow::with(|h| {
        h.end_case();
    });
    if !ok_text {
        return Err(("C14.display".into(), format!("{what} {want}: wrong text")));
    }
    if want.len() <= 16 && (req != 0 || heap) {
        return Err((
            "C09.short_no_alloc".into(),
            format!("to_lean_string of the {what} {want} ({} bytes): {req} allocator request(s), is_heap_allocated = {heap}", want.len()),
        ));
    }
    Ok(want.len() <= 16)
}

fn compositions(total: usize, out: &mut Vec<Vec<usize>>, cur: &mut Vec<usize>) {
    if total == 0 {
        out.push(cur.clone());
        return;
    }
    for w in 1..=4.min(total) {
        cur.push(w);
        compositions(total - w, out, cur);
        cur.pop();
    }
}

fn c09_texts(tier: Tier) -> Vec<String> {
    let units = ["a", "é", "€", "𝄞"];
    let mut texts: Vec<String> = Vec::new();
    // every mix of character widths for every byte length 0..=16 (compositions with parts 1..4);
    // quick keeps the full set for lengths <= 12 and 15, 16; one in three for 13, 14
    for len in 0..=16usize {
        let mut comps = Vec::new();
        compositions(len, &mut comps, &mut Vec::new());
        for (i, c) in comps.iter().enumerate() {
            if tier == Tier::Quick && (len == 13 || len == 14) && i % 3 != 0 {
                continue;
            }
            texts.push(c.iter().map(|w| units[w - 1]).collect());
        }
    }
    // every possible final byte at lengths 16, 15, 1..: ASCII finals and continuation finals
    for len in [16usize, 15, 8, 2] {
        for b in 0x00..=0x7fu8 {
            let mut s = "x".repeat(len - 1);
            s.push(b as char);
            texts.push(s);
        }
        for last in 0x80..=0xbfu32 {
            // 2-byte char C2 xx / DF xx, 3-byte E1 80 xx, 4-byte F1 80 80 xx
            for (lead, w) in [(0x80u32, 2usize), (0x7c0, 2), (0x1000, 3), (0xffc0, 3), (0x40000, 4), (0x10ffc0, 4)] {
                if w > len {
                    continue;
                }
                let cp = lead | (last & 0x3f);
                if let Some(ch) = char::from_u32(cp) {
                    if ch.len_utf8() == w {
                        let mut s = "x".repeat(len - w);
                        s.push(ch);
                        texts.push(s);
                    }
                }
            }
        }
    }
    for b in 0x00..=0x7fu8 {
        texts.push((b as char).to_string());
    }
    // longer texts
    for len in 17..=64usize {
        texts.push(text_of_len(len, false));
        texts.push(text_of_len(len, true));
    }
    for len in [100usize, 255, 256, 1000, 4096, 70_000] {
        texts.push(text_of_len(len, len % 2 == 0));
    }
    texts.sort();
    texts.dedup();
    texts
}

pub fn c09(tier: Tier, seed: u64) -> Verdict {
    let t0 = Instant::now();
    let texts = c09_texts(tier);
    let mut merged = run_parallel(|shard| {
        let mut m = Merged::new();
        let mut i = shard;
        'o: while i < texts.len() {
            let t = &texts[i];
            for route in 0..ROUTES.len() {
                m.evaluations += 1;
                match ctor_case(route, t) {
                    Ok(()) => {
                        let class = (route, t.len(), t.as_bytes().last().map(|b| b >> 4));
                        m.distinct.insert(digest(&class));
                    }
                    Err((clause, detail)) => {
                        if clause.starts_with("C09") {
                            m.violation = Some(Violation { case: json!({"kind": "ctor", "route": ROUTES[route], "text": t}), clause, step: 0, detail });
                            break 'o;
                        }
                        m.abandoned_foreign += 1;
                    }
                }
            }
            if t.len() <= 16 {
                for kind in 0..DECODERS.len() {
                    m.evaluations += 1;
                    match decoder_case(kind, t) {
                        Ok(true) => {
                            m.distinct.insert(digest(&("decoder", kind, t.len(), t.as_bytes().last().map(|b| b >> 4))));
                        }
                        Ok(false) => {}
                        Err((clause, detail)) => {
                            if clause.starts_with("C09") {
                                m.violation = Some(Violation { case: json!({"kind": "decoder", "decoder": kind, "text": t}), clause, step: 0, detail });
                                break 'o;
                            }
                            m.abandoned_foreign += 1;
                        }
                    }
                }
            }
            if m.samples.is_empty() && t.len() == 16 {
                m.samples.push(json!({"kind": "ctor", "route": "from_str", "text": t}));
            }
            i += SHARDS;
        }
        // chars, bools, integers with 1..=16 bytes of text
        if m.violation.is_none() {
            let run = |r: Result<bool, (String, String)>, case: Value, m: &mut Merged| {
                m.evaluations += 1;
                match r {
                    Ok(true) => {
                        m.distinct.insert(digest(&case.to_string()));
                    }
                    Ok(false) => {}
                    Err((clause, detail)) => {
                        if clause.starts_with("C09") && m.violation.is_none() {
                            m.violation = Some(Violation { case, clause, step: 0, detail });
                        }
                    }
                }
            };
            if shard == 0 {
                run(short_value_case(true, "bool"), json!({"kind": "short_value", "ty": "bool", "v": "true"}), &mut m);
                run(short_value_case(false, "bool"), json!({"kind": "short_value", "ty": "bool", "v": "false"}), &mut m);
            }
            let mut c = shard as u32;
            while c <= 0x10FFFF {
                if let Some(ch) = char::from_u32(c) {
                    if c < 0x3000 || c % 257 == 0 {
                        run(short_value_case(ch, "char"), json!({"kind": "short_value", "ty": "char", "v": c}), &mut m);
                        m.evaluations += 1;
                        let s = LeanString::from(ch);
                        if s.is_heap_allocated() || s.as_str().chars().next() != Some(ch) {
                            m.violation = Some(Violation { case: json!({"kind": "short_value", "ty": "char_from", "v": c}), clause: "C09.short_no_alloc".into(), step: 0, detail: format!("From<char> of U+{c:04X} is on the heap or wrong") });
                        }
                    }
                }
                c += SHARDS as u32;
            }
            // integers: 10^k +- 1 and extremes for every type
            let mut p: u128 = 1;
            for k in 0..39u32 {
                if k as usize % SHARDS == shard {
                    for d in [-1i128, 0, 1] {
                        let mag = p.wrapping_add_signed(d);
                        for neg in [false, true] {
                            let wide = if neg { (mag as i128).wrapping_neg() } else { mag as i128 };
                            let case = |ty: &str| json!({"kind": "short_value", "ty": ty, "v": wide.to_string()});
                            macro_rules! go {
                                ($($t:ty),*) => {$(
                                    if let Ok(v) = <$t>::try_from(wide) {
                                        run(short_value_case(v, stringify!($t)), case(stringify!($t)), &mut m);
                                        if let Some(nz) = core::num::NonZero::<$t>::new(v) {
                                            run(short_value_case(nz, concat!("NonZero<", stringify!($t), ">")), case(concat!("nz_", stringify!($t))), &mut m);
                                        }
                                    }
                                )*};
                            }
                            go!(i8, u8, i16, u16, i32, u32, i64, u64, isize, usize);
                            run(short_value_case(wide, "i128"), case("i128"), &mut m);
                            if !neg {
                                run(short_value_case(mag, "u128"), case("u128"), &mut m);
                            }
                        }
                    }
                }
                p = p.saturating_mul(10);
            }
        }
        m
    });
    merged.counters.insert("ctor_texts".into(), texts.len() as u64);
    if merged.violation.is_none() {
        let rule: fn(&Ctx) -> bool = |c| c.clause_evals.get("C09.inline_edit").copied().unwrap_or(0) >= 3;
        let n = tier.pick(15_000, 400_000);
        let m = run_sharded("C09", seed, 0, n, || history_strategy(&Profile::inline_edits()), plain_history_case("C09", rule));
        merged.merge(m);
    }
    finish(
        "C09",
        tier,
        seed,
        "exploration",
        "constructor sweep: every mix of 1/2/3/4-byte characters for every byte length 0..=16 (compositions; quick thins lengths 13-14), every possible final byte 0x00..=0xBF at lengths 16, 15, 8, 2, 1 (ASCII finals and continuation finals of 2-, 3-, 4-byte characters), lengths 17..=64 and 100..70000, through From<&str>, From<String>, From<&String>, From<Box<str>>, From<Cow> (both arms), FromStr, from_utf8, String::to_lean_string, from_static_str, from_utf8_unchecked; every text of at most 16 bytes also as the output of from_utf16, from_utf16_lossy (also with a lone surrogate appended) and from_utf8_lossy (also with an invalid byte appended): no request of the crate's allocator, not heap allocated; chars (all below U+3000 and a stride above), bools, every integer type at 10^k+-1; then proptest edit histories over inline strings (push, push_str, insert, insert_str, pop, remove, retain, truncate, clear with texts <= 16 bytes); oracle: zero allocator requests and !is_heap_allocated for <= 16 bytes, exactly one allocation of >= len bytes and capacity == len above; non-trivial: all; distinct = (route, length, final-byte class) and history digests",
        ASSUME_HIST,
        &merged,
        t0.elapsed().as_secs_f64(),
        "lsv",
    )
}

// ------------------------------------------------------------------------------------------ C05: allocations outside the buffer management

/// Entry points with prepared inputs: `prepare(i)` returns the call as a boxed closure; everything the harness needs
/// is allocated before the closure runs. Returns None past the end of the list.
#[allow(clippy::type_complexity)]
pub fn entry_point(i: usize) -> Option<(&'static str, Box<dyn FnOnce() -> Option<LeanString>>)> {
    let long = "a text that is clearly longer than sixteen bytes, about sixty bytes";
    let invalid: Vec<u8> = [b"valid prefix of the text ".as_slice(), &[0xff, 0xe2, 0x82], b" and a tail after the bad bytes"].concat();
    let units: Vec<u16> = long.encode_utf16().chain([0xd800, 0x41]).collect();
    let heap = || LeanString::from(long);
    let shared = || {
        let a = LeanString::from(long);
        let b = a.clone();
        (a, b)
    };
    let stat: &'static str = "a static text that is longer than sixteen bytes!";
    Some(match i {
        0 => ("from_utf8_lossy(invalid)", Box::new(move || Some(LeanString::from_utf8_lossy(&invalid)))),
        1 => ("from_utf8_lossy(valid)", Box::new(move || Some(LeanString::from_utf8_lossy(long.as_bytes())))),
        2 => ("from_utf16_lossy", Box::new(move || Some(LeanString::from_utf16_lossy(&units)))),
        3 => ("from_utf16", Box::new(move || LeanString::from_utf16(&units[..units.len() - 2]).ok())),
        4 => ("from_utf8", Box::new(move || LeanString::from_utf8(long.as_bytes()).ok())),
        5 => ("from(&str)", Box::new(move || Some(LeanString::from(long)))),
        6 => {
            let s = long.to_string();
            ("from(String)", Box::new(move || Some(LeanString::from(s))))
        }
        7 => {
            let c: Cow<str> = Cow::Borrowed(long);
            ("from(Cow::Borrowed)", Box::new(move || Some(LeanString::from(c))))
        }
        8 => {
            let b = long.to_string().into_boxed_str();
            ("from(Box<str>)", Box::new(move || Some(LeanString::from(b))))
        }
        9 => ("parse", Box::new(move || LeanString::from_str(long).ok())),
        10 => {
            let v: Vec<char> = long.chars().collect();
            ("collect::<LeanString>(chars)", Box::new(move || Some(v.into_iter().collect())))
        }
        11 => {
            let v: Vec<&'static str> = vec!["piece one, ", "piece two, ", "piece three is the longest of them"];
            ("collect::<LeanString>(&str)", Box::new(move || Some(v.into_iter().collect())))
        }
        12 => {
            let v: Vec<LeanString> = vec![LeanString::from("inline"), heap()];
            ("collect::<LeanString>(LeanString)", Box::new(move || Some(v.into_iter().collect())))
        }
        13 => {
            let v: Vec<char> = long.chars().collect();
            let mut t = LeanString::from("start");
            ("extend(chars)", Box::new(move || {
                t.extend(v);
                Some(t)
            }))
        }
        14 => {
            let v: Vec<String> = vec!["owned piece".to_string(), long.to_string()];
            let (_a, mut t) = shared();
            ("extend(String) on shared", Box::new(move || {
                t.extend(v);
                Some(t)
            }))
        }
        15 => ("i64::MIN.to_lean_string()", Box::new(move || Some(i64::MIN.to_lean_string()))),
        16 => ("u128::MAX.to_lean_string()", Box::new(move || Some(u128::MAX.to_lean_string()))),
        17 => ("f64.to_lean_string()", Box::new(move || Some(1.2345678901234567e-300f64.to_lean_string()))),
        18 => ("&str.to_lean_string() (generic arm)", Box::new(move || Some(long.to_lean_string()))),
        19 => {
            let s = long.to_string();
            ("String.to_lean_string()", Box::new(move || Some(s.to_lean_string())))
        }
        20 => ("format_args.to_lean_string()", Box::new(move || Some(format_args!("{long}/{}/{:>8}", 42, 1.5).to_lean_string()))),
        21 => {
            let mut t = LeanString::from_static_str(stat);
            ("push_str on static", Box::new(move || {
                t.push_str(" and more");
                Some(t)
            }))
        }
        22 => {
            let (_a, mut t) = shared();
            ("insert_str on shared", Box::new(move || {
                t.insert_str(3, "inserted");
                Some(t)
            }))
        }
        23 => {
            let (_a, mut t) = shared();
            ("retain on shared", Box::new(move || {
                t.retain(|c| c != 'e');
                Some(t)
            }))
        }
        24 => {
            let (_a, mut t) = shared();
            ("remove on shared", Box::new(move || {
                t.remove(0);
                Some(t)
            }))
        }
        25 => {
            let mut t = heap();
            ("reserve on heap", Box::new(move || {
                t.reserve(500);
                Some(t)
            }))
        }
        26 => {
            let (_a, mut t) = shared();
            ("shrink_to_fit on shared", Box::new(move || {
                t.pop();
                t.shrink_to_fit();
                Some(t)
            }))
        }
        27 => {
            let t = heap();
            ("LeanString + &str", Box::new(move || Some(t + " appended with the plus operator")))
        }
        28 => {
            use std::fmt::Write as _;
            let mut t = LeanString::from("w:");
            ("write!", Box::new(move || {
                let _ = write!(t, "{long}{}", 123456789);
                Some(t)
            }))
        }
        29 => {
            let t = heap();
            ("clone + clone_from", Box::new(move || {
                let mut c = t.clone();
                c.clone_from(&t);
                Some(c)
            }))
        }
        30 => ("with_capacity", Box::new(move || Some(LeanString::with_capacity(300)))),
        31 => {
            let c = '𝄞';
            ("from(char) + to_lean_string(char)", Box::new(move || {
                let mut t = LeanString::from(c);
                t.push_str(c.to_lean_string().as_str());
                Some(t)
            }))
        }
        _ => return None,
    })
}

/// One entry point with the k-th allocation it makes *outside* its buffer management refused (k = None: count only).
/// A refused std allocation that cannot be reported aborts the process: the supervisor's crash triage reports it.
pub fn global_refusal_case(i: usize, k: Option<u64>) -> Result<u64, (String, String)> {
    shadow::with(|h| h.begin_case());
    // inputs (including LeanStrings on the shadow heap) are prepared inside the case
    let Some((name, call)) = entry_point(i) else { return Ok(0) };
    let g0 = shadow::global_allocs();
    if let Some(k) = k {
        shadow::arm_global_refusal(k);
    }
    let r = std::panic::catch_unwind(std::panic::AssertUnwindSafe(call));
    let fired = shadow::disarm_global_refusal();
    let n = shadow::global_allocs() - g0;
    let mut verdict = Ok(n);
    match r {
        Ok(v) => drop(v),
        Err(p) => {
            let msg = p.downcast_ref::<String>().cloned().or_else(|| p.downcast_ref::<&str>().map(|s| s.to_string())).unwrap_or_default();
            if k.is_none() || !fired {
                verdict = Err(("C01.unexpected_panic".to_string(), format!("{name} panicked: {msg}")));
            } else if msg != crate::outcome::RESERVE_MSG {
                verdict = Err((
                    "C05.refusal_message".to_string(),
                    format!("{name}: a refused allocation made it panic with {msg:?} instead of the ReserveError message"),
                ));
            }
        }
    }
    let (live, viol) = heap_state();
    shadow::with(|h| {
        h.end_case();
    });
    verdict?;
    if let Some(v) = viol {
        return Err(("C05.heap_after_refusal".into(), format!("{name}: {v}")));
    }
    if live != 0 {
        return Err(("C05.leak_after_refusal".into(), format!("{name}: {live} block(s) left after a refused allocation")));
    }
    Ok(n)
}

pub fn c05_global_refusals(prop: &'static str) -> Merged {
    let mut m = Merged::new();
    let mut cur = CurrentFile::open(prop, 99);
    let mut i = 0;
    while entry_point(i).is_some() {
        m.evaluations += 1;
        cur.record(&json!({"kind": "global_refusal", "entry": i, "k": Value::Null}));
        match global_refusal_case(i, None) {
            Ok(n) => {
                *m.counters.entry("entry_points_checked_for_foreign_allocations".into()).or_insert(0) += 1;
                // every allocation the call makes outside the buffer management is refused in turn
                for k in 0..n {
                    m.evaluations += 1;
                    cur.record(&json!({"kind": "global_refusal", "entry": i, "k": k}));
                    *m.counters.entry("foreign_allocations_refused".into()).or_insert(0) += 1;
                    if let Err((clause, detail)) = global_refusal_case(i, Some(k)) {
                        if clause.starts_with(prop) {
                            m.violation = Some(Violation { case: json!({"kind": "global_refusal", "entry": i, "k": k}), clause, step: 0, detail });
                            cur.clear();
                            return m;
                        }
                    }
                }
            }
            Err((clause, detail)) => {
                if clause.starts_with(prop) {
                    m.violation = Some(Violation { case: json!({"kind": "global_refusal", "entry": i, "k": Value::Null}), clause, step: 0, detail });
                    break;
                }
            }
        }
        i += 1;
    }
    cur.clear();
    m
}

// ------------------------------------------------------------------------------------------ C20 (a), (b)

fn option_roundtrip(s: LeanString, what: &str, text: &str) -> Result<(), (String, String)> {
    let o: Option<LeanString> = std::hint::black_box(Some(s));
    let v: Vec<Option<LeanString>> = std::hint::black_box(vec![o, None]);
    let mut it = v.into_iter();
    let first = it.next().unwrap();
    let second = it.next().unwrap();
    if second.is_some() {
        return Err(("C20.none_is_none".into(), "None read back as Some".into()));
    }
    match first {
        Some(s) if s.as_str() == text => Ok(()),
        Some(s) => Err(("C20.some_value".into(), format!("{what}: Some(s) read back with text {:?}", &s.as_str()[..s.len().min(30)]))),
        None => Err(("C20.some_is_some".into(), format!("{what} ({} bytes, last byte {:#04x}): Some(s) read back as None", text.len(), text.as_bytes().last().copied().unwrap_or(0)))),
    }
}

pub fn niche_case(kind: usize, len: usize, last: u32) -> Result<(), (String, String)> {
    // kind 0: full inline with final byte `last`; 1: heap of `len`; 2: static of `len`; 3: heap truncated to len
    let text: String = match kind {
        0 => {
            let ch = char::from_u32(last).unwrap_or('a');
            let mut s = "n".repeat(len - ch.len_utf8());
            s.push(ch);
            s
        }
        _ => text_of_len(len, len % 3 == 0),
    };
    let s = match kind {
        0 | 1 => LeanString::from(text.as_str()),
        2 => LeanString::from_static_str(Box::leak(text.clone().into_boxed_str())),
        _ => {
            let mut s = LeanString::from(format!("{text}....").as_str());
            s.truncate(len);
            s
        }
    };
    option_roundtrip(s, ["inline", "heap", "static", "truncated heap"][kind], &text)
}

pub fn c20_sweep() -> Merged {
    assert_eq!(std::mem::size_of::<LeanString>(), 2 * std::mem::size_of::<usize>());
    assert_eq!(std::mem::size_of::<Option<LeanString>>(), 2 * std::mem::size_of::<usize>());
    assert_eq!(std::mem::align_of::<LeanString>(), std::mem::align_of::<usize>());
    let mut cases: Vec<(usize, usize, u32)> = Vec::new();
    for len in 1..=16usize {
        for b in 0..=0x7fu32 {
            cases.push((0, len, b));
        }
        for last in 0x80..=0xbfu32 {
            for lead in [0x80u32, 0x7c0, 0x1000, 0xffc0, 0x40000, 0x10ffc0] {
                let cp = lead | (last & 0x3f);
                if char::from_u32(cp).is_some_and(|c| c.len_utf8() <= len) {
                    cases.push((0, len, cp));
                }
            }
        }
    }
    for len in 17..=1300usize {
        cases.push((1, len, 0));
        cases.push((2, len, 0));
        cases.push((3, len, 0));
    }
    for len in [65535usize, 65536, 65537, (1 << 20) - 1] {
        cases.push((1, len, 0));
        cases.push((2, len, 0));
    }
    run_parallel(|shard| {
        let mut m = Merged::new();
        shadow::with(|h| {
            h.begin_case();
            h.giant_limit = 64 << 20;
        });
        let mut cur = CurrentFile::open("C20", shard);
        let mut i = shard;
        while i < cases.len() {
            let (kind, len, last) = cases[i];
            m.evaluations += 1;
            cur.record(&json!({"kind": "niche", "storage": kind, "len": len, "last": last}));
            let r = std::panic::catch_unwind(|| niche_case(kind, len, last)).unwrap_or_else(|p| {
                let msg = p.downcast_ref::<String>().cloned().or_else(|| p.downcast_ref::<&str>().map(|s| s.to_string())).unwrap_or_default();
                Err(("C20.niche_panic".to_string(), format!("building, wrapping in Some and matching a {len}-byte string with last byte {last:#x} panicked: {msg}")))
            });
            match r {
                Ok(()) => {
                    m.distinct.insert(digest(&cases[i]));
                }
                Err((clause, detail)) => {
                    m.violation = Some(Violation { case: json!({"kind": "niche", "storage": kind, "len": len, "last": last}), clause, step: 0, detail });
                    break;
                }
            }
            i += SHARDS;
        }
        if shard == 0 {
            m.samples.push(json!({"kind": "niche", "storage": 0, "len": 16, "last": 0xbf}));
            let none: Option<LeanString> = std::hint::black_box(None);
            if none.is_some() {
                m.violation = Some(Violation { case: json!({"kind": "niche", "storage": 9, "len": 0, "last": 0}), clause: "C20.none_is_none".into(), step: 0, detail: "None is Some".into() });
            }
        }
        cur.clear();
        shadow::with(|h| {
            h.end_case();
        });
        m
    })
}

/// replay of the sweep case kinds of this file
pub fn replay_sweep(kind: &str, case: &Value) -> Option<Vec<(usize, String, String)>> {
    let u = |k: &str| case.get(k).and_then(|v| v.as_u64()).map(|v| v as usize);
    let r: Result<(), (String, String)> = match kind {
        "niche" => niche_case(u("storage")?, u("len")?, u("last")? as u32),
        "clone_sweep" => clone_sweep_case(u("len")?, u("state")?, u("clones")?, case.get("multi")?.as_bool()?, u("bump").unwrap_or(0)).map(|_| ()),
        "ctor" => {
            let route = ROUTES.iter().position(|r| Some(*r) == case.get("route").and_then(|v| v.as_str()))?;
            ctor_case(route, case.get("text")?.as_str()?)
        }
        "decoder_growth" => match super::grids::c12_decoder_case(u("decoder")?, u("n")?, u("k")?) {
            Some(v) => Err((v.clause, v.detail)),
            None => Ok(()),
        },
        "decoder" => decoder_case(u("decoder")?, case.get("text")?.as_str()?).map(|_| ()),
        "global_refusal" => global_refusal_case(u("entry")?, case.get("k").and_then(|v| v.as_u64())).map(|_| ()),
        "short_value" => {
            let ty = case.get("ty")?.as_str()?;
            let v = case.get("v")?;
            let wide: i128 = v.as_str().and_then(|s| s.parse().ok()).or_else(|| v.as_i64().map(|x| x as i128)).unwrap_or(0);
            macro_rules! one {
                ($t:ty) => {{
                    let x = wide as $t;
                    if ty.starts_with("nz_") { short_value_case(core::num::NonZero::<$t>::new(x)?, ty).map(|_| ()) } else { short_value_case(x, ty).map(|_| ()) }
                }};
            }
            match ty.trim_start_matches("nz_") {
                "bool" => short_value_case(v.as_str() == Some("true"), "bool").map(|_| ()),
                "char" | "char_from" => short_value_case(char::from_u32(v.as_u64()? as u32)?, "char").map(|_| ()),
                "i8" => one!(i8),
                "u8" => one!(u8),
                "i16" => one!(i16),
                "u16" => one!(u16),
                "i32" => one!(i32),
                "u32" => one!(u32),
                "i64" => one!(i64),
                "u64" => one!(u64),
                "i128" => one!(i128),
                "isize" => one!(isize),
                "usize" => one!(usize),
                "u128" => short_value_case(v.as_str()?.parse::<u128>().ok()?, "u128").map(|_| ()),
                _ => return None,
            }
        }
        _ => return None,
    };
    Some(match r {
        Ok(()) => vec![],
        Err((c, d)) => vec![(0, c, d)],
    })
}
