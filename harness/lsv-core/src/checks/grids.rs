//! C06 (size grid), C07 (index grid), C10, C11, C12, C17 (profiled histories + deterministic lists).

use super::common::*;
use super::enumerators::run_history_list;
use super::histories::ASSUME_HIST;
use crate::generate::{Profile, build_text, history_strategy, size_grid, text_strategy};
use crate::ir::*;
use crate::runner::*;
use crate::statics;
use crate::step::Ctx;
use proptest::prelude::*;
use std::time::Instant;

fn pool_index_of_len(len: usize, multi: bool) -> u16 {
    let pool = statics::pool();
    pool.pristine
        .iter()
        .position(|t| t.len() == len && (t.is_ascii() != multi))
        .or_else(|| pool.pristine.iter().position(|t| t.len() == len))
        .unwrap_or(0) as u16
}

/// The catalogue of target states: op prefixes that leave the target in slot 0 (other handles in 1, 2).
pub fn state_prefix(state: usize) -> (Vec<Op>, &'static str) {
    let t20 = "abcdefghijklmnopqré".to_string(); // 20 bytes
    match state {
        0 => (vec![Op::New { slot: 0 }], "inline_empty"),
        1 => (vec![Op::FromText { slot: 0, via: Via::Str, text: "0123456789abcd€".into() }], "inline_full"),
        2 => (vec![Op::FromStatic { slot: 0, k: pool_index_of_len(33, true) }], "static"),
        3 => (
            vec![
                Op::FromStatic { slot: 0, k: pool_index_of_len(33, false) },
                Op::Clone { slot: 1, from: 0, via: CloneVia::Clone },
                Op::Truncate { slot: 0, n: Idx::Raw(9), try_: false },
            ],
            "static_truncated",
        ),
        4 => (vec![Op::FromText { slot: 0, via: Via::String, text: t20 }], "heap_exact"),
        5 => (
            vec![
                Op::WithCapacity { slot: 0, n: Size::Abs(64), try_: false },
                Op::PushStr { slot: 0, text: Text::Lit(t20), try_: false },
            ],
            "heap_spare",
        ),
        6 => (
            vec![Op::FromText { slot: 0, via: Via::Str, text: t20 }, Op::Clone { slot: 1, from: 0, via: CloneVia::Clone }],
            "heap_shared",
        ),
        7 => (
            vec![
                Op::WithCapacity { slot: 0, n: Size::Abs(64), try_: false },
                Op::PushStr { slot: 0, text: Text::Lit(t20), try_: false },
                Op::Clone { slot: 1, from: 0, via: CloneVia::Clone },
                Op::Clone { slot: 2, from: 0, via: CloneVia::FromRef },
                Op::Truncate { slot: 0, n: Idx::Raw(7), try_: false },
            ],
            "heap_shared_shorter",
        ),
        _ => (
            vec![
                Op::FromText { slot: 0, via: Via::Str, text: t20 },
                Op::Clone { slot: 1, from: 0, via: CloneVia::Clone },
                Op::Truncate { slot: 0, n: Idx::Raw(3), try_: false },
                Op::Remove { slot: 0, idx: Idx::Raw(0), try_: false },
                Op::Drop { slot: 1 },
            ],
            "heap_tiny",
        ),
    }
}
pub const N_STATES: usize = 9;

// ------------------------------------------------------------------------------------------ C06

fn c06_grid() -> Vec<History> {
    let grid = size_grid();
    let lens = [0usize, 16, 33, 9, 20, 7, 2];
    let mut sizes: Vec<usize> = grid.clone();
    for g in &grid {
        for l in lens {
            sizes.push(g.wrapping_sub(l));
        }
    }
    sizes.sort_unstable();
    sizes.dedup();
    let mut out = Vec::new();
    for state in 0..N_STATES {
        let (prefix, _) = state_prefix(state);
        for &n in &sizes {
            for entry in 0..9u8 {
                let mut ops = prefix.clone();
                let chars: Vec<String> = vec!["aé€𝄞".repeat((n % 11).min(10))];
                let it = |kind| IterSpec { kind, items: chars.clone(), slots: vec![], hint: Some(n), panic_at: None, loose: None, fx: None, upper: None };
                ops.push(match entry {
                    0 => Op::WithCapacity { slot: 3, n: Size::Abs(n), try_: true },
                    1 => Op::WithCapacity { slot: 3, n: Size::Abs(n), try_: false },
                    2 => Op::Reserve { slot: 0, n: Size::Abs(n), try_: true },
                    3 => Op::Reserve { slot: 0, n: Size::Abs(n), try_: false },
                    4 => Op::ShrinkTo { slot: 0, n: Size::Abs(n), try_: true },
                    5 => Op::ShrinkTo { slot: 0, n: Size::Abs(n), try_: false },
                    6 => Op::Extend { slot: 0, it: it(IterKind::Char) },
                    7 => Op::Extend { slot: 0, it: it(IterKind::RefChar) },
                    _ => Op::Collect { slot: 3, it: it(IterKind::Char) },
                });
                ops.push(Op::Push { slot: 0, ch: 'é', try_: false });
                ops.push(Op::Compare { a: 0, b: 1 });
                ops.push(Op::PushStr { slot: 3, text: Text::Lit("tail".into()), try_: true });
                out.push(History { ops, plan: Plan::default() });
            }
        }
    }
    // real (not fabricated) large texts through try_push_str / push_str / try_insert_str / insert_str
    for state in 0..N_STATES {
        let (prefix, _) = state_prefix(state);
        for n in [65_536usize, 524_288, 1_048_576, 1_048_577 + 64, 2_000_000] {
            for entry in 0..4u8 {
                let mut ops = prefix.clone();
                let text = Text::Repeat { n, unit: 'g' };
                ops.push(match entry {
                    0 => Op::PushStr { slot: 0, text, try_: true },
                    1 => Op::PushStr { slot: 0, text, try_: false },
                    2 => Op::InsertStr { slot: 0, idx: Idx::Raw(0), text, try_: true },
                    _ => Op::InsertStr { slot: 0, idx: Idx::LenPlus(0), text, try_: false },
                });
                ops.push(Op::Push { slot: 0, ch: 'é', try_: false });
                ops.push(Op::Compare { a: 0, b: 1 });
                ops.push(Op::ShrinkToFit { slot: 0, try_: true });
                out.push(History { ops, plan: Plan::default() });
            }
        }
    }
    out
}

pub fn c06(tier: Tier, seed: u64) -> Verdict {
    let t0 = Instant::now();
    let grid = c06_grid();
    let rule: fn(&Ctx) -> bool = |c| c.tags.contains("giant_nontrivial");
    let mut merged = run_history_list("C06", grid.len(), |i| grid[i].clone(), rule);
    merged.counters.insert("grid_cases".into(), grid.len() as u64);
    merged.exhaustive = false;
    if merged.violation.is_none() {
        let n = tier.pick(8000, 200_000);
        for (i, p) in [Profile::sizes(), Profile { w_clone: 28, w_trunc: 12, ..Profile::sizes() }].into_iter().enumerate() {
            let m = run_sharded("C06", seed, i as u64, n, || history_strategy(&p), plain_history_case("C06", rule));
            merged.merge(m);
            if merged.violation.is_some() {
                break;
            }
        }
    }
    if merged.violation.is_none() {
        merged.merge(super::histories::run_large_texts("C06"));
    }
    if merged.violation.is_none() {
        // "... after a failure": the same size operations with ordinary sizes, each allocator request of the
        // history failing in turn; also on a target shortened first (short text in a roomy buffer)
        let mut list: Vec<History> = Vec::new();
        for h in grid.iter().filter(|h| h.ops.iter().all(|o| !matches!(o, Op::PushStr { text: Text::Repeat { .. }, .. } | Op::InsertStr { text: Text::Repeat { .. }, .. }))) {
            let n_prefix = h.ops.len() - 4;
            let size = match &h.ops[n_prefix] {
                Op::WithCapacity { n: Size::Abs(n), .. } | Op::Reserve { n: Size::Abs(n), .. } | Op::ShrinkTo { n: Size::Abs(n), .. } => *n,
                Op::Extend { it, .. } | Op::Collect { it, .. } => it.hint.unwrap_or(0),
                _ => continue,
            };
            if size > 5000 {
                continue;
            }
            list.push(h.clone());
            let mut ops = h.ops.clone();
            ops.insert(n_prefix, Op::Truncate { slot: 0, n: Idx::Boundary(26000), try_: false });
            list.push(History { ops, plan: Plan::default() });
        }
        let case = super::enumerators::fault_case("C06", false);
        let m = run_parallel(|shard| {
            let mut m = Merged::new();
            let mut cur = CurrentFile::open("C06", shard);
            let mut i = shard;
            while i < list.len() {
                let (st, v) = case(&list[i], &mut cur);
                m.absorb(st);
                if let Some(v) = v {
                    m.violation = Some(v);
                    break;
                }
                i += SHARDS;
            }
            cur.clear();
            *m.counters.entry("fault_grid_histories".into()).or_insert(0) += (list.len() / SHARDS) as u64;
            m
        });
        merged.merge(m);
    }
    finish(
        "C06",
        tier,
        seed,
        "exploration",
        "exhaustive grid: sizes {0,1,2} U {2^k+d} U {2^56+-d, isize::MAX+-d, usize::MAX-d} U {each minus a current length} x 9 entry points (try_with_capacity, with_capacity, try_reserve, reserve, try_shrink_to, shrink_to, Extend<char>, Extend<&char>, collect with size_hint().0 = n) x 9 target states, then the same size operations at random points of proptest histories; the shim refuses requests above 1 MiB deterministically; the grid cases with sizes up to 5000 (also on a target truncated first) are re-run with each allocator request failing in turn; non-trivial = size >= 2^20 on a non-inline target (or as hint / capacity); distinct history digests",
        ASSUME_HIST,
        &merged,
        t0.elapsed().as_secs_f64(),
        "lsv",
    )
}

// ------------------------------------------------------------------------------------------ C07

fn width_patterns(max_chars: usize) -> Vec<String> {
    let units = ['a', 'é', '€', '𝄞'];
    let mut out = vec![String::new()];
    let mut frontier = vec![String::new()];
    for _ in 0..max_chars {
        let mut next = Vec::new();
        for p in &frontier {
            for u in units {
                let mut s = p.clone();
                s.push(u);
                next.push(s);
            }
        }
        out.extend(next.iter().cloned());
        frontier = next;
    }
    out
}

fn pad_to(p: &str, len: usize, front: bool) -> Option<String> {
    if p.len() > len {
        return None;
    }
    let pad = "b".repeat(len - p.len());
    Some(if front { format!("{pad}{p}") } else { format!("{p}{pad}") })
}

/// (prefix ops, target text) for a text in a storage state; None if the state cannot hold it
fn c07_state(text: &str, state: u8) -> Option<Vec<Op>> {
    let t = text.to_string();
    Some(match state {
        0 if t.len() <= 16 => vec![Op::FromText { slot: 0, via: Via::Str, text: t }],
        1 if t.len() > 16 => vec![Op::FromText { slot: 0, via: Via::Str, text: t }],
        1 => vec![Op::WithCapacity { slot: 0, n: Size::Abs(20), try_: false }, Op::PushStr { slot: 0, text: Text::Lit(t), try_: false }],
        2 if t.len() > 16 => vec![Op::FromText { slot: 0, via: Via::String, text: t }, Op::Clone { slot: 1, from: 0, via: CloneVia::Clone }],
        2 => vec![
            Op::WithCapacity { slot: 0, n: Size::Abs(24), try_: false },
            Op::PushStr { slot: 0, text: Text::Lit(t), try_: false },
            Op::Clone { slot: 1, from: 0, via: CloneVia::Clone },
        ],
        3 => {
            let longer = format!("{t}€xyz-----------------");
            vec![
                Op::FromText { slot: 0, via: Via::Str, text: longer },
                Op::Clone { slot: 1, from: 0, via: CloneVia::Clone },
                Op::Truncate { slot: 0, n: Idx::Raw(text.len()), try_: false },
            ]
        }
        _ => return None,
    })
}

fn c07_ops(idx: usize, flip: bool) -> Vec<Op> {
    let i = Idx::Raw(idx);
    vec![
        Op::Insert { slot: 0, idx: i, ch: 'é', try_: flip },
        Op::InsertStr { slot: 0, idx: i, text: Text::Lit(String::new()), try_: !flip },
        Op::InsertStr { slot: 0, idx: i, text: Text::Lit("ab€".into()), try_: flip },
        Op::Remove { slot: 0, idx: i, try_: !flip },
        Op::Truncate { slot: 0, n: i, try_: flip },
    ]
}

fn c07_grid(max_chars: usize) -> Vec<History> {
    let mut texts: Vec<String> = Vec::new();
    for p in width_patterns(max_chars) {
        for (len, front) in [(0usize, false), (16, true), (16, false), (17, true), (24, false)] {
            if len == 0 {
                texts.push(p.clone());
            } else if let Some(t) = pad_to(&p, len, front) {
                texts.push(t);
            }
        }
    }
    texts.sort();
    texts.dedup();
    let mut out = Vec::new();
    for t in &texts {
        for state in 0..4u8 {
            let Some(prefix) = c07_state(t, state) else { continue };
            let mut idxs: Vec<usize> = (0..=t.len() + 2).collect();
            idxs.push(usize::MAX);
            for (n, &idx) in idxs.iter().enumerate() {
                for (k, op) in c07_ops(idx, n % 2 == 0).into_iter().enumerate() {
                    // thin the grid: every op on every index for short texts, rotating ops for padded ones
                    if t.len() > 12 && (n + k) % 2 == 1 {
                        continue;
                    }
                    let mut ops = prefix.clone();
                    ops.push(op);
                    ops.push(Op::Push { slot: 0, ch: 'z', try_: false });
                    out.push(History { ops, plan: Plan::default() });
                }
            }
        }
    }
    // static targets: every pool text
    let pool = statics::pool();
    for (k, t) in pool.pristine.iter().enumerate() {
        let mut idxs: Vec<usize> = (0..=t.len().min(70) + 2).collect();
        idxs.push(usize::MAX);
        idxs.push(t.len());
        idxs.push(t.len() + 1);
        for (n, &idx) in idxs.iter().enumerate() {
            for op in c07_ops(idx, n % 2 == 0) {
                let ops = vec![
                    Op::FromStatic { slot: 0, k: k as u16 },
                    Op::Clone { slot: 1, from: 0, via: CloneVia::Clone },
                    op,
                    Op::Push { slot: 0, ch: 'z', try_: false },
                ];
                out.push(History { ops, plan: Plan::default() });
            }
        }
    }
    out
}

pub fn c07(tier: Tier, seed: u64) -> Verdict {
    let t0 = Instant::now();
    let grid = c07_grid(tier.pick(4, 5));
    let rule: fn(&Ctx) -> bool = |c| c.tags.contains("index_panic_non_inline") || c.tags.contains("index_inside_char");
    let mut merged = run_history_list("C07", grid.len(), |i| grid[i].clone(), rule);
    merged.counters.insert("grid_cases".into(), grid.len() as u64);
    if merged.violation.is_none() {
        let n = tier.pick(8000, 250_000);
        for (i, p) in [Profile::index(), Profile { w_clone: 26, w_static: 12, ..Profile::index() }].into_iter().enumerate() {
            let m = run_sharded("C07", seed, i as u64, n, || history_strategy(&p), plain_history_case("C07", rule));
            merged.merge(m);
            if merged.violation.is_some() {
                break;
            }
        }
    }
    finish(
        "C07",
        tier,
        seed,
        "exploration",
        "grid: all 1/2/3/4-byte width patterns of up to 4 (thorough 5) characters, bare and padded to 16/17/24 bytes, in states inline / heap unique / heap shared / heap shared with shorter handle, plus every static pool text, x {insert, insert_str empty and non-empty, remove, truncate, try_ and plain} x every byte index 0..=len+2 and usize::MAX (thinned by rotation for padded texts); then proptest histories biased to index operations; oracle: panics iff String panics, and a panicking call leaves target, other handles, heap and refcounts untouched; non-trivial = rejected index on a non-inline target or index strictly inside a character; distinct history digests",
        ASSUME_HIST,
        &merged,
        t0.elapsed().as_secs_f64(),
        "lsv",
    )
}

// ------------------------------------------------------------------------------------------ C10 / C11 / C12

fn c10_list() -> Vec<History> {
    let pool = statics::pool();
    let mut out = Vec::new();
    for k in 0..pool.texts.len() as u16 {
        for cut in [Idx::Boundary(3000), Idx::Boundary(20000), Idx::Boundary(40000), Idx::LenPlus(-1), Idx::Raw(16), Idx::Raw(15)] {
            for grow in [
                Op::Push { slot: 0, ch: '𝄞', try_: false },
                Op::PushStr { slot: 0, text: Text::Lit("0123456789abcdefXYZ".into()), try_: true },
                Op::Insert { slot: 0, idx: Idx::Raw(0), ch: 'é', try_: false },
                Op::Reserve { slot: 0, n: Size::Abs(3), try_: false },
                Op::Retain { slot: 0, r: RetainSpec { mask: 0x5555_5555_5555_5555, panic_at: None, fx: None }, try_: false },
                Op::Remove { slot: 0, idx: Idx::Raw(0), try_: true },
            ] {
                let ops = vec![
                    Op::FromStatic { slot: 0, k },
                    Op::Clone { slot: 1, from: 0, via: CloneVia::Clone },
                    Op::CloneFrom { slot: 2, from: 0 },
                    Op::Truncate { slot: 0, n: cut, try_: false },
                    Op::Pop { slot: 0, try_: false },
                    Op::Clone { slot: 3, from: 0, via: CloneVia::ToLean },
                    grow.clone(),
                    Op::Compare { a: 0, b: 1 },
                    Op::Clear { slot: 1 },
                    Op::Push { slot: 1, ch: 'q', try_: false },
                ];
                out.push(History { ops, plan: Plan::default() });
            }
        }
    }
    out
}

pub fn c10(tier: Tier, seed: u64) -> Verdict {
    let t0 = Instant::now();
    let list = c10_list();
    let rule: fn(&Ctx) -> bool = |c| c.tags.contains("static_nonalloc_op") && c.tags.contains("static_write_op");
    let mut merged = run_history_list("C10", list.len(), |i| list[i].clone(), rule);
    if merged.violation.is_none() {
        // calls that are refused (a size no allocator can serve, or an injected allocation failure) write nothing: the
        // handle keeps borrowing (C10.keep_borrowing), whole or shortened
        let pool = statics::pool();
        let mut refused: Vec<History> = Vec::new();
        for k in (0..pool.texts.len() as u16).step_by(3) {
            for cut in [None, Some(Idx::Boundary(20000)), Some(Idx::Raw(9))] {
                for op in [
                    Op::Reserve { slot: 0, n: Size::Abs(1 << 60), try_: true },
                    Op::Reserve { slot: 0, n: Size::Abs((1 << 56) - 1), try_: false },
                    Op::Reserve { slot: 0, n: Size::Abs(3 << 20), try_: true },
                    Op::PushStr { slot: 0, text: Text::Repeat { n: 2 << 20, unit: 'r' }, try_: true },
                    Op::InsertStr { slot: 0, idx: Idx::Raw(0), text: Text::Repeat { n: 2 << 20, unit: 'r' }, try_: false },
                    Op::Extend { slot: 0, it: IterSpec { kind: IterKind::Char, items: vec![], slots: vec![], hint: Some(1 << 58), panic_at: None, loose: None, fx: None, upper: None } },
                ] {
                    let mut ops = vec![Op::FromStatic { slot: 0, k }, Op::Clone { slot: 1, from: 0, via: CloneVia::Clone }];
                    if let Some(c) = cut {
                        ops.push(Op::Truncate { slot: 0, n: c, try_: false });
                    }
                    ops.push(op);
                    ops.push(Op::Compare { a: 0, b: 1 });
                    ops.push(Op::Pop { slot: 0, try_: false });
                    refused.push(History { ops, plan: Plan::default() });
                }
            }
        }
        merged.merge(run_history_list("C10", refused.len(), |i| refused[i].clone(), rule));
        if merged.violation.is_none() {
            // injected failures: every allocator request of a thinned deterministic list fails in turn
            let thin: Vec<History> = list.iter().step_by(11).cloned().collect();
            let case = super::enumerators::fault_case("C10", false);
            let mut m = super::enumerators::run_catalogue("C10", &thin, &case);
            m.counters.remove("catalogue_histories");
            merged.merge(m);
        }
    }
    if merged.violation.is_none() {
        let n = tier.pick(10_000, 300_000);
        for (i, p) in [Profile::statics(), Profile { w_append: 26, w_index: 16, ..Profile::statics() }, Profile { giant_sizes: true, w_reserve: 16, ..Profile::statics() }].into_iter().enumerate() {
            let m = run_sharded("C10", seed, i as u64, if i == 2 { n / 3 } else { n }, || history_strategy(&p), plain_history_case("C10", rule));
            merged.merge(m);
            if merged.violation.is_some() {
                break;
            }
        }
    }
    finish(
        "C10",
        tier,
        seed,
        "exploration",
        "pool of 24 leaked 'static texts (lengths 0..300, ASCII and multi-byte, incl. 16-byte texts ending in a continuation byte); deterministic list (every text x truncation point x first writing operation) plus calls that are refused on whole and shortened static handles (sizes no allocator serves; every allocator request of a thinned list failing in turn): the handle keeps borrowing; plus proptest histories biased to from_static_str/clone/pop/truncate/clear then writes (one profile with giant sizes); every pool text compared with its pristine copy after every step; non-trivial = history applies >= 1 non-allocating operation and >= 1 writing operation to handles of a static text longer than 16 bytes; distinct history digests",
        ASSUME_HIST,
        &merged,
        t0.elapsed().as_secs_f64(),
        "lsv",
    )
}

pub fn c11(tier: Tier, seed: u64) -> Verdict {
    let t0 = Instant::now();
    let rule: fn(&Ctx) -> bool = |c| c.tags.contains("fill_exact") || c.tags.contains("reserve_shared_or_static");
    let mut merged = Merged::new();
    let n = tier.pick(12_000, 350_000);
    for (i, p) in [Profile::capacity(), Profile { w_clone: 18, w_static: 8, intrusions: true, ..Profile::capacity() }, Profile { giant_sizes: true, ..Profile::capacity() }]
        .into_iter()
        .enumerate()
    {
        let m = run_sharded("C11", seed, i as u64, n, || history_strategy(&p), plain_history_case("C11", rule));
        merged.merge(m);
        if merged.violation.is_some() {
            break;
        }
    }
    if merged.violation.is_none() {
        merged.merge(super::histories::run_large_texts("C11"));
    }
    finish(
        "C11",
        tier,
        seed,
        "exploration",
        "proptest histories biased to reserve/with_capacity followed by appends whose size is computed from the capacity reported just before the call (capacity-len+d, d in -2..=2); capacity >= len checked for every handle after every step; non-trivial = an append/insert that exactly fills reserved heap capacity, or a reserve on a shared or static target; distinct history digests",
        ASSUME_HIST,
        &merged,
        t0.elapsed().as_secs_f64(),
        "lsv",
    )
}

fn growth_case() -> impl Fn(&History, &mut CurrentFile) -> (CaseStats, Option<Violation>) + Sync {
    move |h, cur| {
        cur.record(&history_value(h));
        // growth by up to 1 MiB must reach the allocator: raise the shim's refusal limit for this check
        let res = crate::history::run_history_with(h, 16 << 20, Some("C12"));
        let mut stats = CaseStats::default();
        let v = account("C12", h, &res, false, &mut stats);
        if v.is_none() && res.failures.is_empty() {
            for g in &res.ctx.growth {
                stats.nontrivial.push(digest(&(g.0, g.1, g.2)));
            }
            if !res.ctx.growth.is_empty() && stats.sample.is_none() && want_sample() {
                stats.sample = Some(history_value(h));
            }
        }
        (stats, v)
    }
}

/// push-one-char loops: O(log n) allocator requests, O(n) bytes moved
fn push_loop(n: usize, unit: &[char], kind: usize) -> Result<(usize, u64, u64), (String, String)> {
    use crate::shadow;
    shadow::with(|h| {
        h.begin_case();
        h.giant_limit = 256 << 20;
    });
    let mut s = lean_string::LeanString::new();
    let mut model_len = 0usize;
    let mut tmp = [0u8; 4];
    for i in 0..n {
        let c = unit[i % unit.len()];
        // the same one-character append through the different entry points
        match kind {
            0 => s.push(c),
            1 => s.extend(std::iter::once(c)),
            2 => s.push_str(c.encode_utf8(&mut tmp)),
            3 => s += c.encode_utf8(&mut tmp),
            4 => s.insert(s.len(), c),
            _ => s.extend([c.encode_utf8(&mut tmp) as &str]),
        }
        model_len += c.len_utf8();
    }
    let ok = s.len() == model_len && s.chars().count() == n;
    let cap = s.capacity();
    drop(s);
    let (req, moved, viol, live) = shadow::with(|h| {
        let r = (h.requests_total, h.bytes_moved, h.violations.len(), h.live.len());
        h.end_case();
        r
    });
    if !ok {
        return Err(("C01.value".into(), format!("push loop of {n} chars: wrong length")));
    }
    if viol != 0 || live != 0 {
        return Err(("C03.loop".into(), format!("push loop of {n} chars: {viol} heap violation(s), {live} block(s) left")));
    }
    let l = model_len.max(17) as f64;
    let bound = ((l / 16.0).ln() / 1.5f64.ln()).ceil() as u64 + 3;
    if req > bound {
        return Err((
            "C12.loop_requests".into(),
            format!("pushing {n} chars ({model_len} bytes) one at a time issued {req} allocator requests, more than ceil(log1.5(len/16))+3 = {bound}"),
        ));
    }
    let moved_bound = 6 * model_len as u64 + 64 * (req + 1);
    if moved > moved_bound {
        return Err((
            "C12.loop_bytes_moved".into(),
            format!("pushing {n} chars ({model_len} bytes) moved {moved} bytes in reallocations, more than 6*len = {moved_bound}"),
        ));
    }
    if cap < model_len {
        return Err(("C11.cap_ge_len".into(), format!("capacity {cap} < len {model_len}")));
    }
    Ok((model_len, req, moved))
}

/// The decoders append as they go: a text that outgrows the buffer they started with still costs O(log n) requests.
/// kind 0: from_utf8_lossy(n valid bytes + k x 0xFF), 1: from_utf16 / 2: from_utf16_lossy of n ASCII + k three-byte units,
/// 3 / 4: the same two over k surrogate pairs + n three-byte units
pub fn c12_decoder_case(kind: usize, n: usize, k: usize) -> Option<Violation> {
    use crate::shadow;
    shadow::with(|h| {
        h.begin_case();
        h.giant_limit = 256 << 20;
    });
    let (out_len, ok) = match kind {
        0 => {
            let mut b = vec![b'v'; n];
            b.extend(std::iter::repeat_n(0xFFu8, k));
            let s = lean_string::LeanString::from_utf8_lossy(&b);
            (s.len(), s.len() == n + 3 * k)
        }
        1 | 2 => {
            let mut u = vec![0x61u16; n];
            u.extend(std::iter::repeat_n(0x20acu16, k));
            let s = if kind == 1 { lean_string::LeanString::from_utf16(&u).unwrap_or_default() } else { lean_string::LeanString::from_utf16_lossy(&u) };
            (s.len(), s.len() == n + 3 * k)
        }
        _ => {
            // k surrogate pairs first (2 units -> 4 bytes), then n three-byte units: the text outgrows `units` bytes late
            let mut u: Vec<u16> = Vec::new();
            for _ in 0..k {
                u.extend([0xd83du16, 0xde00]);
            }
            u.extend(std::iter::repeat_n(0x20acu16, n));
            let s = if kind == 3 { lean_string::LeanString::from_utf16(&u).unwrap_or_default() } else { lean_string::LeanString::from_utf16_lossy(&u) };
            (s.len(), s.len() == 4 * k + 3 * n)
        }
    };
    let (req, viol, live, sizes) = shadow::with(|h| {
        let sizes: Vec<usize> = h.events.iter().filter(|e| matches!(e.kind, shadow::EvKind::Alloc | shadow::EvKind::Realloc)).map(|e| e.size).collect();
        let r = (h.requests_total, h.violations.len(), h.live.len(), sizes);
        h.end_case();
        r
    });
    let case = serde_json::json!({"kind": "decoder_growth", "decoder": kind, "n": n, "k": k});
    // each buffer the decoder moves to is needed because the previous one (of s bytes, header included) was full to
    // within 3 bytes: "at least the old length plus half of it" implies more than 1.5 x (s - 32) for the next one
    // ... and "no larger than the greater of that and the size actually required": the append that did not fit was
    // one character (at most 4 bytes) on top of at most s - 16 bytes of text
    for w in sizes.windows(2) {
        if w[1] > w[0] && w[1] > (w[0] + w[0] / 2).max(w[0] + 4) + 32 {
            return Some(Violation {
                case,
                clause: "C12.upper".into(),
                step: 0,
                detail: format!("decoder {kind} ({n} + {k} units): a full buffer of {} bytes was replaced by one of {} bytes, more than 1.5x and more than one character needs (all buffer sizes: {sizes:?})", w[0], w[1]),
            });
        }
    }
    for w in sizes.windows(2) {
        if w[1] > w[0] && 2 * w[1] < 3 * w[0].saturating_sub(32) {
            return Some(Violation {
                case,
                clause: "C12.lower".into(),
                step: 0,
                detail: format!("decoder {kind} ({n} + {k} units): a full buffer of {} bytes was replaced by one of {} bytes, less than 1.5x (all buffer sizes: {sizes:?})", w[0], w[1]),
            });
        }
    }
    if !ok || viol != 0 || live != 0 {
        return Some(Violation { case, clause: "C16.decode".into(), step: 0, detail: format!("decoder {kind}: wrong length, heap violation or leak ({viol}, {live})") });
    }
    let l = out_len.max(17) as f64;
    let bound = ((l / 16.0).ln() / 1.5f64.ln()).ceil() as u64 + 3;
    if req > bound {
        return Some(Violation {
            case,
            clause: "C12.loop_requests".into(),
            step: 0,
            detail: format!("decoding {n} + {k} units into {out_len} bytes issued {req} allocator requests, more than ceil(log1.5(len/16))+3 = {bound}"),
        });
    }
    None
}

pub fn c12_loop_case(n: usize, mix: usize) -> Option<Violation> {
    let units: [&[char]; 3] = [&['a'], &['a', 'é', '€', '𝄞'], &['𝄞']];
    match push_loop(n, units[mix % 3], mix / 3) {
        Ok(_) => None,
        Err((clause, detail)) => Some(Violation {
            case: serde_json::json!({"kind": "push_loop", "n": n, "mix": mix}),
            clause,
            step: 0,
            detail,
        }),
    }
}

pub fn c12(tier: Tier, seed: u64) -> Verdict {
    let t0 = Instant::now();
    let mut merged = Merged::new();
    let n = tier.pick(10_000, 300_000);
    for (i, p) in [
        Profile { max_text: 1500, huge_texts: true, ..Profile::capacity() },
        Profile { max_text: 4096, w_append: 30, w_clone: 14, w_static: 8, huge_texts: true, ..Profile::base() },
    ]
    .into_iter()
    .enumerate()
    {
        let m = run_sharded("C12", seed, i as u64, n, || history_strategy(&p), growth_case());
        merged.merge(m);
        if merged.violation.is_some() {
            break;
        }
    }
    if merged.violation.is_none() {
        // growth when an allocator request is refused: the bounds hold for whatever capacity the call ends with
        let nf = tier.pick(1500, 20_000);
        let p = Profile { w_append: 26, w_static: 10, max_text: 300, ..Profile::faults() };
        let m = run_sharded("C12", seed, 50, nf, || history_strategy(&p), super::enumerators::fault_case("C12", false));
        merged.merge(m);
    }
    if merged.violation.is_none() {
        // growth of texts of several MiB
        merged.merge(super::histories::run_large_texts("C12"));
    }
    if merged.violation.is_none() {
        // iterator-driven appends whose item count says nothing about their size: k empty items around a few bytes
        let mut list: Vec<History> = Vec::new();
        for state in 0..N_STATES {
            let (prefix, _) = state_prefix(state);
            for k in [1usize, 2, 3, 9, 30, 100, 1000] {
                for kind in [IterKind::Str, IterKind::String, IterKind::BoxStr, IterKind::CowB, IterKind::CowO, IterKind::Lean, IterKind::Char] {
                    for (fill, collect) in [("", false), ("f", false), ("é€", false), ("f", true)] {
                        let mut items = vec![String::new(); k];
                        if !fill.is_empty() {
                            items.insert(k / 2, fill.to_string());
                        }
                        let it = IterSpec { kind, items, slots: vec![], hint: None, panic_at: None, loose: None, fx: None, upper: None };
                        let mut ops = prefix.clone();
                        ops.push(if collect { Op::Collect { slot: 3, it } } else { Op::Extend { slot: 0, it } });
                        ops.push(Op::Compare { a: 0, b: 1 });
                        ops.push(Op::Push { slot: 0, ch: 'z', try_: false });
                        list.push(History { ops, plan: Plan::default() });
                    }
                }
            }
        }
        let case = growth_case();
        let m = run_parallel(|shard| {
            let mut m = Merged::new();
            let mut cur = CurrentFile::open("C12", shard);
            let mut i = shard;
            while i < list.len() {
                let (st, v) = case(&list[i], &mut cur);
                m.absorb(st);
                if let Some(v) = v {
                    m.violation = Some(v);
                    break;
                }
                i += SHARDS;
            }
            cur.clear();
            m
        });
        merged.merge(m);
    }
    if merged.violation.is_none() {
        // push loops
        let mut ns: Vec<usize> = (1..=300).collect();
        ns.extend([1000, 10_000, 100_000, 1 << 20]);
        if tier == Tier::Thorough {
            ns.push(4 << 20);
        }
        // mix = character mix (mod 3) + 3 * entry point (push, extend(once), push_str, +=, insert at end, extend([&str]))
        let cases: Vec<(usize, usize)> = ns.iter().flat_map(|&n| (0..18).filter(move |m| n <= 100_000 || *m < 6).map(move |m| (n, m))).collect();
        let m = run_parallel(|shard| {
            let mut m = Merged::new();
            let mut i = cases.len() as isize - 1 - shard as isize;
            while i >= 0 {
                let (n, mix) = cases[i as usize];
                m.evaluations += 1;
                *m.counters.entry("push_loops".into()).or_insert(0) += 1;
                if let Some(v) = c12_loop_case(n, mix) {
                    if v.clause.starts_with("C12") {
                        m.violation = Some(v);
                        break;
                    }
                    m.abandoned_foreign += 1;
                } else {
                    m.distinct.insert(digest(&("loop", n, mix)));
                    if n == 1000 && mix == 1 {
                        m.samples.push(serde_json::json!({"kind": "push_loop", "n": n, "mix": mix}));
                    }
                }
                i -= SHARDS as isize;
            }
            m
        });
        merged.merge(m);
    }
    if merged.violation.is_none() {
        let mut m = Merged::new();
        'd: for kind in 0..5usize {
            for n in [0usize, 20, 100, 1000, 65_536] {
                for k in [10usize, 200, 5000] {
                    m.evaluations += 1;
                    *m.counters.entry("decoder_growth_cases".into()).or_insert(0) += 1;
                    if let Some(v) = c12_decoder_case(kind, n, k) {
                        if v.clause.starts_with("C12") {
                            m.violation = Some(v);
                            break 'd;
                        }
                        m.abandoned_foreign += 1;
                    } else {
                        m.distinct.insert(digest(&("decoder", kind, n, k)));
                    }
                }
            }
        }
        merged.merge(m);
    }
    finish(
        "C12",
        tier,
        seed,
        "exploration",
        "growth events (push/push_str/insert/insert_str/reserve/+=/+/single-piece write! whose pre-state cannot hold the result and whose result is on the heap) in proptest histories with texts up to 4 KiB: new capacity >= L+L/2 and <= max(L+L/2, L+A); plus push-one-char loops for n in 1..=300, 10^3, 10^4, 10^5, 2^20 (thorough 4*2^20) x 3 character mixes: allocator requests <= ceil(log1.5(len/16))+3 and bytes moved <= 6*len; the same request bound for the decoders when their output outgrows the buffer they start with (from_utf8_lossy with runs of invalid bytes, from_utf16 / from_utf16_lossy with three-byte characters); non-trivial = growth event, distinct = distinct (pre-storage kind, old length L, requested amount A) triples, and distinct loops",
        ASSUME_HIST,
        &merged,
        t0.elapsed().as_secs_f64(),
        "lsv",
    )
}

// ------------------------------------------------------------------------------------------ C17

fn recipe(r: u8, text: &str, t: Slot, scratch: Slot, static_k: Option<u16>) -> Vec<Op> {
    let tx = text.to_string();
    let longer = format!("{text}é-stale-bytes-behind-the-end");
    let len = text.len();
    match r {
        1 if static_k.is_some() => vec![
            Op::FromStatic { slot: t, k: static_k.unwrap() },
            Op::Truncate { slot: t, n: Idx::Raw(len), try_: false },
        ],
        2 => vec![Op::FromText { slot: t, via: Via::String, text: longer }, Op::Truncate { slot: t, n: Idx::Raw(len), try_: false }],
        3 => vec![Op::FromText { slot: t, via: Via::Str, text: format!("{text}é") }, Op::Pop { slot: t, try_: false }],
        4 => vec![
            Op::WithCapacity { slot: t, n: Size::Abs(200), try_: false },
            Op::PushStr { slot: t, text: Text::Lit(tx), try_: false },
        ],
        5 => vec![
            Op::FromText { slot: scratch, via: Via::Str, text: longer },
            Op::Clone { slot: t, from: scratch, via: CloneVia::Clone },
            Op::Truncate { slot: t, n: Idx::Raw(len), try_: true },
        ],
        6 => vec![
            Op::WithCapacity { slot: t, n: Size::Abs(100), try_: false },
            Op::PushStr { slot: t, text: Text::Lit(tx), try_: false },
            Op::ShrinkToFit { slot: t, try_: false },
        ],
        7 => {
            let mut v = vec![Op::New { slot: t }];
            v.extend(text.chars().map(|ch| Op::Push { slot: t, ch, try_: false }));
            v
        }
        8 => vec![Op::FromText { slot: t, via: Via::BoxStr, text: tx }, Op::Reserve { slot: t, n: Size::Abs(100), try_: false }],
        9 => vec![
            Op::FromText { slot: scratch, via: Via::Str, text: longer },
            Op::Clone { slot: t, from: scratch, via: CloneVia::FromRef },
            Op::Truncate { slot: t, n: Idx::Raw(len), try_: false },
            Op::Drop { slot: scratch },
            Op::Push { slot: t, ch: 'x', try_: false },
            Op::Pop { slot: t, try_: false },
        ],
        10 => vec![
            Op::FromText { slot: t, via: Via::Str, text: format!("€{text}") },
            Op::Remove { slot: t, idx: Idx::Raw(0), try_: false },
        ],
        11 => vec![Op::Collect { slot: t, it: IterSpec { kind: IterKind::Char, items: vec![tx], slots: vec![], hint: None, panic_at: None, loose: None, fx: None, upper: None } }],
        _ => vec![Op::FromText { slot: t, via: Via::Str, text: tx }],
    }
}

fn c17_strategy(max: usize) -> BoxedStrategy<History> {
    let pool = statics::pool();
    let npool = pool.texts.len() as u16;
    // a text is either free-form or a prefix of a pool text (so the static recipe applies)
    let text_src = prop_oneof![
        3 => text_strategy(max).prop_map(|t| (t, None)),
        2 => (0..npool, any::<u16>()).prop_map(move |(k, cut)| {
            let full = statics::pool().pristine[k as usize].clone();
            let b = crate::world::boundaries(&full);
            let at = b[(cut as usize * b.len()) >> 16];
            (full[..at].to_string(), Some(k))
        }),
    ];
    (text_src, 0u8..12, 0u8..12, 0u8..6, any::<u8>())
        .prop_map(|((t1, k), r1, r2, variant, salt)| {
            // second text: same, or a late difference, or a prefix relation
            let t2: String = match variant {
                0 | 1 | 2 => t1.clone(),
                3 => {
                    // differ only in the last character / 16th byte region
                    let mut s = t1.clone();
                    s.pop();
                    s.push(if salt % 2 == 0 { 'y' } else { 'é' });
                    s
                }
                4 if salt % 2 == 0 => {
                    let b = crate::world::boundaries(&t1);
                    t1[..b[(salt as usize * b.len()) >> 8]].to_string()
                }
                4 => {
                    // same length, one character in the middle replaced by another of the same width
                    let cs: Vec<char> = t1.chars().collect();
                    if cs.is_empty() {
                        "x".to_string()
                    } else {
                        let i = (salt as usize / 2) % cs.len();
                        let repl = match cs[i].len_utf8() {
                            1 => if cs[i] == 'X' { 'Y' } else { 'X' },
                            2 => if cs[i] == 'ß' { 'é' } else { 'ß' },
                            3 => if cs[i] == '\u{3080}' { '\u{3040}' } else { '\u{3080}' },
                            _ => if cs[i] == '\u{10FFFF}' { '𝄞' } else { '\u{10FFFF}' },
                        };
                        cs.iter().enumerate().map(|(j, c)| if j == i { repl } else { *c }).collect()
                    }
                }
                _ => format!("{t1}{}", build_text(salt as usize % 5, &[salt], false)),
            };
            // the second handle borrows the same static, or (2 of 3) an equal text at another address
            let k2 = match k {
                Some(k) if t2 == t1 && salt % 3 != 0 => statics::pool().other_with_prefix(k, &t2, salt as usize / 3).or(Some(k)),
                Some(k) if t2 == t1 => Some(k),
                _ => None,
            };
            let mut ops = recipe(r1, &t1, 0, 1, k);
            ops.extend(recipe(r2, &t2, 2, 3, k2));
            ops.push(Op::Compare { a: 0, b: 2 });
            ops.push(Op::Compare { a: 2, b: 0 });
            ops.push(Op::Compare { a: 0, b: 0 });
            History { ops, plan: Plan::default() }
        })
        .boxed()
}

pub fn c17(tier: Tier, seed: u64) -> Verdict {
    let t0 = Instant::now();
    let rule: fn(&Ctx) -> bool = |c| c.tags.contains("c17_same_text_diff_storage") || c.tags.contains("c17_diff_late");
    let mut merged = Merged::new();
    // exhaustive: every pair of texts of up to 3 characters over {a, b, é} (every position at which two short texts
    // can differ), each built directly and through a history that leaves stale bytes behind the end
    {
        let mut texts: Vec<String> = vec![String::new()];
        let mut frontier = vec![String::new()];
        for _ in 0..3 {
            let mut next = Vec::new();
            for p in &frontier {
                for u in ['a', 'b', 'é'] {
                    let mut t = p.clone();
                    t.push(u);
                    next.push(t);
                }
            }
            texts.extend(next.iter().cloned());
            frontier = next;
        }
        let mut list: Vec<History> = Vec::new();
        for t1 in &texts {
            for t2 in &texts {
                for (r1, r2) in [(0u8, 0u8), (2, 0), (0, 3), (2, 4)] {
                    let mut ops = recipe(r1, t1, 0, 1, None);
                    ops.extend(recipe(r2, t2, 2, 3, None));
                    ops.push(Op::Compare { a: 0, b: 2 });
                    list.push(History { ops, plan: Plan::default() });
                }
            }
        }
        // long texts (a reader that works in pieces: 4 KiB, 64 KiB, 1 MiB), equal and differing at the very end
        for n in [4097usize, 65_537, 200_000, 1_000_000] {
            for differ in [false, true] {
                let mut ops = vec![
                    Op::PushStr { slot: 0, text: Text::Repeat { n, unit: 'L' }, try_: false },
                    Op::WithCapacity { slot: 2, n: Size::Abs(n + 100), try_: false },
                    Op::PushStr { slot: 2, text: Text::Repeat { n: n - 1, unit: 'L' }, try_: false },
                    Op::Push { slot: 2, ch: if differ { 'M' } else { 'L' }, try_: false },
                    Op::Clone { slot: 3, from: 2, via: CloneVia::Clone },
                ];
                ops.push(Op::Compare { a: 0, b: 2 });
                ops.push(Op::Compare { a: 3, b: 0 });
                list.push(History { ops, plan: Plan::default() });
            }
        }
        merged.merge(super::enumerators::run_history_list("C17", list.len(), |i| list[i].clone(), rule));
        merged.counters.insert("short_pairs_exhaustive".into(), list.len() as u64);
    }
    let n = tier.pick(12_000, 400_000);
    if merged.violation.is_none() {
        let m = run_sharded("C17", seed, 0, n, || c17_strategy(120), plain_history_case("C17", rule));
        merged.merge(m);
    }
    if merged.violation.is_none() {
        let p = Profile { w_compare: 30, w_clone: 18, ..Profile::base() };
        let m = run_sharded("C17", seed, 1, n / 2, || history_strategy(&p), plain_history_case("C17", rule));
        merged.merge(m);
    }
    finish(
        "C17",
        tier,
        seed,
        "exploration",
        "pairs (text1 via recipe1, text2 via recipe2) with 12 recipes that reach the same text through different histories (direct, static prefix, built longer then truncated/popped, over-allocated, shared clone truncated, shrunk to inline, single pushes, after reserve, sole survivor with stale bytes behind the end, after remove, collected); text2 is the same text, differs only in its last character or in one character in the middle, is a prefix or an extension; exhaustively all pairs of texts of up to 3 characters over {a, b, é}; readers: ==, cmp, partial_cmp, hash (SipHash with fixed keys, FNV and a word-at-a-time hasher; also as element of a slice, Vec and tuple next to an empty string), Display, Debug, padded format, == with str/&str/String/Cow in both orders, HashMap/BTreeMap lookup by &str, AsRef/Deref/Borrow, String::from; also compare operations inside general histories; non-trivial = equal texts in different storage kind / capacity / sharing, or different texts sharing a prefix of >= 15 bytes; distinct history digests",
        ASSUME_HIST,
        &merged,
        t0.elapsed().as_secs_f64(),
        "lsv",
    )
}
