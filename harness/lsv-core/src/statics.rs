//! Pool of harness-owned `&'static str`s (leaked heap memory, so a stray write corrupts data
//! instead of faulting) with pristine copies.

use std::sync::OnceLock;

pub struct StaticsPool {
    pub texts: Vec<&'static str>,
    pub pristine: Vec<String>,
}

fn make(len: usize, multi: bool) -> String {
    let mut s = String::new();
    let units: &[&str] = if multi { &["é", "€", "𝄞", "a", "\u{10FFFF}", "ß"] } else { &["s", "t", "a", "T", "i", "c"] };
    let mut i = 0;
    while s.len() < len {
        let u = units[i % units.len()];
        if s.len() + u.len() <= len {
            s.push_str(u);
        } else {
            s.push('~');
        }
        i += 1;
    }
    s
}

pub fn pool() -> &'static StaticsPool {
    static POOL: OnceLock<StaticsPool> = OnceLock::new();
    POOL.get_or_init(|| {
        let mut pristine = Vec::new();
        for &len in &[0usize, 1, 15, 16, 17, 18, 24, 32, 33, 64, 300] {
            pristine.push(make(len, false));
            if len > 0 {
                pristine.push(make(len, true));
            }
        }
        // a 16-byte text ending in a continuation byte, and 17-byte ones
        pristine.push("abcdefghijklmn\u{7ff}".to_string());
        pristine.push("abcdefghijklmn€".to_string());
        // 33-byte texts whose 16th byte (index 15) takes every kind of value a text byte can have there:
        // ASCII, every continuation byte class, and every lead byte (2-byte leads 0xC2..=0xDF cover the
        // values the handle uses as length / heap / static markers)
        for cp in (0xC2u32..=0xDF).map(|lead| (lead - 0xC0) << 6).chain([0x800, 0x1000, 0xD000, 0xFFFF, 0x10000, 0x40000, 0x10FFFF]) {
            if let Some(ch) = char::from_u32(cp) {
                // the character starts at byte 15
                let mut t = "0123456789abcde".to_string();
                t.push(ch);
                while t.len() < 33 {
                    t.push('w');
                }
                pristine.push(t);
                // the character ends at byte 15 (a continuation byte there)
                let mut t = "x".repeat(16 - ch.len_utf8());
                t.push(ch);
                t.push_str("-tail after sixteen");
                pristine.push(t);
            }
        }
        // every text exists twice, at two addresses (index i and i + n): equal static texts need not be the same
        // static
        let twins = pristine.clone();
        pristine.extend(twins);
        let texts = pristine.iter().map(|s| &*Box::leak(s.clone().into_boxed_str())).collect();
        StaticsPool { texts, pristine }
    })
}

impl StaticsPool {
    /// another pool text, at another address, that starts with `prefix` (the twin of `k` at the latest)
    pub fn other_with_prefix(&self, k: u16, prefix: &str, salt: usize) -> Option<u16> {
        let n = self.texts.len();
        let k = k as usize % n;
        let c: Vec<usize> = (0..n).filter(|i| *i != k && self.pristine[*i].starts_with(prefix)).collect();
        if c.is_empty() { None } else { Some(c[salt % c.len()] as u16) }
    }
    pub fn get(&self, k: u16) -> &'static str {
        self.texts[k as usize % self.texts.len()]
    }
    /// index of the pool text starting exactly at `ptr`
    pub fn find_by_ptr(&self, ptr: usize) -> Option<usize> {
        self.texts.iter().position(|t| t.as_ptr() as usize == ptr)
    }
    /// Puts the pristine bytes back (after a modification has been reported), so that the following cases of this
    /// process start from intact static texts again.
    pub fn restore(&self) {
        for (t, p) in self.texts.iter().zip(&self.pristine) {
            if t.as_bytes() != p.as_bytes() {
                // SAFETY: the pool texts are leaked heap allocations of exactly `p.len()` bytes, owned by the harness
                unsafe { std::ptr::copy_nonoverlapping(p.as_ptr(), t.as_ptr() as *mut u8, p.len()) };
            }
        }
    }
    pub fn all_pristine(&self) -> Option<usize> {
        self.texts.iter().zip(&self.pristine).position(|(t, p)| t.as_bytes() != p.as_bytes())
    }
}
