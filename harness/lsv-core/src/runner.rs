//! Sharded proptest runner, evidence and replay plumbing shared by all checks.

use proptest::strategy::{BoxedStrategy, Strategy};
use proptest::test_runner::{Config, RngAlgorithm, TestCaseError, TestError, TestRng, TestRunner};
use serde_json::{Value, json};
use std::collections::{BTreeMap, HashSet};
use std::io::{Seek, SeekFrom, Write};
use std::sync::Mutex;
use std::sync::atomic::{AtomicBool, Ordering};

pub const SHARDS: usize = 16;

#[derive(Clone, Copy, Debug, PartialEq, Eq)]
pub enum Tier {
    Quick,
    Thorough,
}

impl Tier {
    pub fn name(self) -> &'static str {
        match self {
            Tier::Quick => "quick",
            Tier::Thorough => "thorough",
        }
    }
    pub fn pick<T>(self, q: T, t: T) -> T {
        match self {
            Tier::Quick => q,
            Tier::Thorough => t,
        }
    }
}

pub fn verif_dir() -> std::path::PathBuf {
    std::env::var_os("VERIF_DIR").map(Into::into).unwrap_or_else(|| "/verif".into())
}

/// What a single case reports back.
#[derive(Default)]
pub struct CaseStats {
    /// cases executed (a case may consist of several executions, e.g. one per fault position)
    pub evaluations: u64,
    /// digests of the executions that are non-trivial by the check's rule
    pub nontrivial: Vec<u64>,
    pub classes: Vec<String>,
    pub clause_evals: Vec<(&'static str, u64)>,
    pub counters: Vec<(&'static str, u64)>,
    /// abandoned because an oracle of another property failed first
    pub abandoned_foreign: u64,
    pub sample: Option<Value>,
}

/// A violation of the property being checked, with the replayable case.
#[derive(Clone, Debug)]
pub struct Violation {
    pub case: Value,
    pub clause: String,
    pub step: usize,
    pub detail: String,
}

pub struct Merged {
    pub evaluations: u64,
    pub distinct: HashSet<u64>,
    pub classes: BTreeMap<String, u64>,
    pub clause_evals: BTreeMap<String, u64>,
    pub counters: BTreeMap<String, u64>,
    pub abandoned_foreign: u64,
    pub samples: Vec<Value>,
    pub violation: Option<Violation>,
    pub infra_error: Option<String>,
    pub exhaustive: bool,
}

impl Merged {
    pub fn new() -> Self {
        Merged {
            evaluations: 0,
            distinct: HashSet::new(),
            classes: BTreeMap::new(),
            clause_evals: BTreeMap::new(),
            counters: BTreeMap::new(),
            abandoned_foreign: 0,
            samples: Vec::new(),
            violation: None,
            infra_error: None,
            exhaustive: false,
        }
    }
    pub fn absorb(&mut self, st: CaseStats) {
        self.evaluations += st.evaluations;
        for d in st.nontrivial {
            self.distinct.insert(d);
        }
        for c in st.classes {
            *self.classes.entry(c).or_insert(0) += 1;
        }
        for (c, n) in st.clause_evals {
            *self.clause_evals.entry(c.to_string()).or_insert(0) += n;
        }
        for (c, n) in st.counters {
            *self.counters.entry(c.to_string()).or_insert(0) += n;
        }
        self.abandoned_foreign += st.abandoned_foreign;
        if let Some(s) = st.sample {
            if self.samples.len() < 5 {
                self.samples.push(s);
            }
        }
    }
    pub fn merge(&mut self, o: Merged) {
        self.evaluations += o.evaluations;
        self.distinct.extend(o.distinct);
        for (k, v) in o.classes {
            *self.classes.entry(k).or_insert(0) += v;
        }
        for (k, v) in o.clause_evals {
            *self.clause_evals.entry(k).or_insert(0) += v;
        }
        for (k, v) in o.counters {
            *self.counters.entry(k).or_insert(0) += v;
        }
        self.abandoned_foreign += o.abandoned_foreign;
        for s in o.samples {
            if self.samples.len() < 5 {
                self.samples.push(s);
            }
        }
        if self.violation.is_none() {
            self.violation = o.violation;
        }
        if self.infra_error.is_none() {
            self.infra_error = o.infra_error;
        }
    }
}

impl Default for Merged {
    fn default() -> Self {
        Self::new()
    }
}

pub struct CurrentFile {
    file: Option<std::fs::File>,
}

impl CurrentFile {
    pub fn open(prop: &str, shard: usize) -> Self {
        let dir = verif_dir().join("work").join(prop);
        let _ = std::fs::create_dir_all(&dir);
        let file = std::fs::OpenOptions::new()
            .create(true)
            .write(true)
            .truncate(true)
            .open(dir.join(format!("current-{shard}.json")))
            .ok();
        CurrentFile { file }
    }
    pub fn none() -> Self {
        CurrentFile { file: None }
    }
    pub fn record(&mut self, v: &Value) {
        if let Some(f) = self.file.as_mut() {
            let bytes = serde_json::to_vec(v).unwrap_or_default();
            let _ = f.set_len(0);
            let _ = f.seek(SeekFrom::Start(0));
            let _ = f.write_all(&bytes);
        }
    }
    pub fn clear(&mut self) {
        if let Some(f) = self.file.as_mut() {
            let _ = f.set_len(0);
        }
    }
}

fn seed_bytes(seed: u64, shard: u64, stream: u64) -> [u8; 32] {
    let mut b = [0u8; 32];
    b[..8].copy_from_slice(&seed.to_le_bytes());
    b[8..16].copy_from_slice(&shard.to_le_bytes());
    b[16..24].copy_from_slice(&stream.to_le_bytes());
    b[24..32].copy_from_slice(&0x6c73765f73656564u64.to_le_bytes());
    b
}

/// Runs `cases` generated values per shard through `case_fn` on `SHARDS` threads.
///
/// `case_fn(value, current_file)` returns the stats of the case and, if the property being checked
/// is violated, the violation. proptest shrinks the value; the closure is re-run during shrinking,
/// statistics are only taken before the first failure.
pub fn run_sharded<T, F>(
    prop: &str,
    seed: u64,
    stream: u64,
    cases: u32,
    strategy: impl Fn() -> BoxedStrategy<T> + Sync,
    case_fn: F,
) -> Merged
where
    T: std::fmt::Debug + Clone + 'static,
    F: Fn(&T, &mut CurrentFile) -> (CaseStats, Option<Violation>) + Sync,
{
    let stop = AtomicBool::new(false);
    let total = Mutex::new(Merged::new());
    std::thread::scope(|sc| {
        for shard in 0..SHARDS {
            let stop = &stop;
            let total = &total;
            let strategy = &strategy;
            let case_fn = &case_fn;
            sc.spawn(move || {
                let cur = CurrentFile::open(prop, shard);
                let config = Config {
                    cases,
                    failure_persistence: None,
                    max_shrink_iters: 3000,
                    max_local_rejects: 1 << 20,
                    max_global_rejects: 1 << 20,
                    ..Config::default()
                };
                let rng = TestRng::from_seed(RngAlgorithm::ChaCha, &seed_bytes(seed, shard as u64, stream));
                let mut runner = TestRunner::new_with_rng(config, rng);
                let failed = std::cell::Cell::new(false);
                let last_violation: std::cell::RefCell<Option<Violation>> = std::cell::RefCell::new(None);
                let infra: std::cell::RefCell<Option<String>> = std::cell::RefCell::new(None);
                let merged_c = std::cell::RefCell::new(Merged::new());
                let cur_c = std::cell::RefCell::new(cur);
                let strat = strategy();
                let result = runner.run(&strat, |value| {
                    if stop.load(Ordering::Relaxed) && !failed.get() {
                        // another shard found a violation: finish quickly
                        return Ok(());
                    }
                    let r = std::panic::catch_unwind(std::panic::AssertUnwindSafe(|| {
                        case_fn(&value, &mut cur_c.borrow_mut())
                    }));
                    match r {
                        Ok((stats, viol)) => {
                            if !failed.get() {
                                merged_c.borrow_mut().absorb(stats);
                            }
                            match viol {
                                Some(v) => {
                                    failed.set(true);
                                    let msg = format!("{} at step {}: {}", v.clause, v.step, v.detail);
                                    *last_violation.borrow_mut() = Some(v);
                                    Err(TestCaseError::fail(msg))
                                }
                                None => Ok(()),
                            }
                        }
                        Err(p) => {
                            let msg = p
                                .downcast_ref::<String>()
                                .cloned()
                                .or_else(|| p.downcast_ref::<&str>().map(|s| s.to_string()))
                                .unwrap_or_else(|| "harness panic".into());
                            let mut infra = infra.borrow_mut();
                            if infra.is_none() {
                                *infra = Some(format!("harness panic: {msg}; case: {value:?}"));
                            }
                            Ok(())
                        }
                    }
                });
                let mut cur = cur_c.into_inner();
                let mut merged = merged_c.into_inner();
                let mut infra = infra.into_inner();
                let last_violation = last_violation.into_inner();
                cur.clear();
                if let Err(e) = result {
                    match e {
                        TestError::Fail(_, minimal) => {
                            stop.store(true, Ordering::Relaxed);
                            // re-run the minimal case to get its report
                            let (_, viol) = case_fn(&minimal, &mut CurrentFile::none());
                            merged.violation = viol.or(last_violation);
                        }
                        TestError::Abort(reason) => {
                            infra = Some(format!("proptest aborted: {reason}"));
                        }
                    }
                }
                merged.infra_error = infra;
                total.lock().unwrap().merge(merged);
            });
        }
    });
    total.into_inner().unwrap()
}

/// Runs `f(shard)` on SHARDS threads (for enumerations that do not need generated values).
pub fn run_parallel<F>(f: F) -> Merged
where
    F: Fn(usize) -> Merged + Sync,
{
    let total = Mutex::new(Merged::new());
    std::thread::scope(|sc| {
        for shard in 0..SHARDS {
            let total = &total;
            let f = &f;
            sc.spawn(move || {
                let r = std::panic::catch_unwind(std::panic::AssertUnwindSafe(|| f(shard)));
                let m = match r {
                    Ok(m) => m,
                    Err(p) => {
                        let mut m = Merged::new();
                        let msg = p
                            .downcast_ref::<String>()
                            .cloned()
                            .or_else(|| p.downcast_ref::<&str>().map(|s| s.to_string()))
                            .unwrap_or_else(|| "harness panic".into());
                        m.infra_error = Some(format!("harness panic in shard {shard}: {msg}"));
                        m
                    }
                };
                total.lock().unwrap().merge(m);
            });
        }
    });
    total.into_inner().unwrap()
}

pub struct Verdict {
    pub exit_code: i32,
}

/// Writes evidence (and a replay file on violation), prints the verdict lines.
#[allow(clippy::too_many_arguments)]
pub fn finish(
    prop: &str,
    tier: Tier,
    seed: u64,
    level: &str,
    rule: &str,
    assumptions: &[&str],
    merged: &Merged,
    wall_s: f64,
    engine: &str,
) -> Verdict {
    let dir = verif_dir();
    let mut counters = merged.counters.clone();
    if let Ok(alt) = std::env::var("LSV_MERGE_ALT") {
        if let Ok(bytes) = std::fs::read(dir.join("work").join(prop).join(format!("evidence-{alt}.json"))) {
            if let Ok(v) = serde_json::from_slice::<Value>(&bytes) {
                if let Some(n) = v["coverage"]["evaluations"].as_u64() {
                    counters.insert(format!("{alt}_build_evaluations"), n);
                }
            }
        }
    }
    let skipped = crate::history::skipped_crashing_cases();
    if skipped > 0 {
        counters.insert("excluded_crashing_histories".into(), skipped);
    }
    let _ = std::fs::create_dir_all(dir.join("evidence"));
    let mut violations = 0;
    let mut replay_path = None;
    // a violation whose signature is listed as an open known finding is reported as such, not as a violation
    let known: Option<String> = merged.violation.as_ref().and_then(|v| known_finding(prop, v));
    if let (Some(what), Some(v)) = (&known, &merged.violation) {
        println!("KNOWN-FINDING: property={prop} {what} (signature {})", violation_signature(v));
    }
    let merged_view;
    let merged = if known.is_some() {
        merged_view = Merged { violation: None, ..clone_counts(merged) };
        &merged_view
    } else {
        merged
    };
    if let Some(v) = &merged.violation {
        violations = 1;
        let _ = std::fs::create_dir_all(dir.join("replays"));
        let digest = {
            use std::hash::{Hash, Hasher};
            let mut h = std::collections::hash_map::DefaultHasher::new();
            v.case.to_string().hash(&mut h);
            h.finish()
        };
        let path = dir.join("replays").join(format!("{prop}-{digest:016x}.json"));
        let doc = json!({
            "property": prop, "engine": engine, "seed": seed, "tier": tier.name(),
            "case": v.case,
            "failure": { "oracle": v.clause, "step": v.step, "detail": v.detail },
        });
        let _ = std::fs::write(&path, serde_json::to_vec_pretty(&doc).unwrap());
        replay_path = Some(path);
    }
    let ev = json!({
        "property_id": prop,
        "tier": tier.name(),
        "seed": seed,
        "level": level,
        "coverage": {
            "evaluations": merged.evaluations,
            "distinct_nontrivial": merged.distinct.len(),
            "rule": rule,
            "samples": merged.samples,
            "exhaustive": merged.exhaustive,
            "classes": merged.classes,
            "clause_evaluations": merged.clause_evals,
            "counters": counters,
            "abandoned_foreign": merged.abandoned_foreign,
            "excluded_by_known_finding": if known.is_some() { 1 } else { 0 },
        },
        "assumptions": assumptions,
        "wall_s": wall_s,
        "violations": violations,
    });
    // a pass made by another build of the engine (C03: without debug assertions) keeps its evidence aside; the main
    // pass reports how much it covered
    match std::env::var("LSV_EVIDENCE_ALT") {
        Ok(alt) if !alt.is_empty() => {
            let _ = std::fs::create_dir_all(dir.join("work").join(prop));
            let _ = std::fs::write(dir.join("work").join(prop).join(format!("evidence-{alt}.json")), serde_json::to_vec_pretty(&ev).unwrap());
        }
        _ => {
            let _ = std::fs::write(dir.join("evidence").join(format!("{prop}.json")), serde_json::to_vec_pretty(&ev).unwrap());
        }
    }
    if let Some(e) = &merged.infra_error {
        eprintln!("INFRASTRUCTURE-ERROR property={prop} {e}");
        if merged.violation.is_none() {
            return Verdict { exit_code: 2 };
        }
    }
    if let (Some(v), Some(p)) = (&merged.violation, replay_path) {
        println!("violated clause {} at step {}: {}", v.clause, v.step, v.detail);
        println!("VIOLATION property={prop} replay={}", p.display());
        return Verdict { exit_code: 1 };
    }
    println!(
        "OK property={prop} tier={} evaluations={} distinct_nontrivial={} wall_s={wall_s:.1}",
        tier.name(),
        merged.evaluations,
        merged.distinct.len()
    );
    Verdict { exit_code: 0 }
}

/// Signature used to match a violation against /verif/known_findings.json: failing clause plus the
/// operation of the failing step (history cases) or the case kind.
pub fn violation_signature(v: &Violation) -> String {
    let what = v
        .case
        .get("ops")
        .and_then(|o| o.as_array())
        .and_then(|ops| ops.get(v.step))
        .and_then(|op| op.get("op"))
        .and_then(|o| o.as_str())
        .map(|s| format!("op={s}"))
        .unwrap_or_else(|| format!("kind={}", v.case.get("kind").and_then(|k| k.as_str()).unwrap_or("?")));
    format!("clause={};{what}", v.clause)
}

/// Some(description) if the violation's signature is listed under "open" in known_findings.json.
pub fn known_finding(prop: &str, v: &Violation) -> Option<String> {
    let sig = violation_signature(v);
    let bytes = std::fs::read(verif_dir().join("known_findings.json")).ok()?;
    let k = serde_json::from_slice::<Value>(&bytes).ok()?;
    for e in k.get("open").and_then(|o| o.as_array()).cloned().unwrap_or_default() {
        if e.get("property").and_then(|p| p.as_str()) == Some(prop) && e.get("signature").and_then(|s| s.as_str()) == Some(sig.as_str()) {
            return Some(e.get("what").and_then(|w| w.as_str()).unwrap_or("listed finding").to_string());
        }
    }
    None
}

fn clone_counts(m: &Merged) -> Merged {
    Merged {
        evaluations: m.evaluations,
        distinct: m.distinct.clone(),
        classes: m.classes.clone(),
        clause_evals: m.clause_evals.clone(),
        counters: m.counters.clone(),
        abandoned_foreign: m.abandoned_foreign,
        samples: m.samples.clone(),
        violation: None,
        infra_error: m.infra_error.clone(),
        exhaustive: m.exhaustive,
    }
}

pub fn strategy_of<T: std::fmt::Debug + 'static>(s: impl Strategy<Value = T> + 'static) -> BoxedStrategy<T> {
    s.boxed()
}
