//! Outcome of one operation on the real LeanString or on the String model.

use std::any::Any;

pub const RESERVE_MSG: &str = "Cannot allocate memory to hold LeanString";

/// payload of panics injected by harness callbacks
#[derive(Debug, Clone, Copy, PartialEq, Eq)]
pub struct Injected(pub u16);

#[derive(Debug, Clone, PartialEq, Eq)]
pub enum Ret {
    Unit,
    OptChar(Option<char>),
    Char(char),
    Bool(bool),
}

#[derive(Debug, Clone, PartialEq, Eq)]
pub enum PanicKind {
    /// message is exactly ReserveError's Display text
    Reserve,
    /// index / char boundary panic of the crate (real) or of String (model)
    Index,
    /// harness callback panic
    Injected(u16),
    /// Display returned Err and the plain conversion panicked
    Fmt,
    Other,
}

#[derive(Debug, Clone, PartialEq, Eq)]
pub enum Outcome {
    Ok(Ret),
    ReserveErr,
    FmtErr,
    DecodeErr,
    Panic(PanicKind, String),
}

impl Outcome {
    pub fn class(&self) -> &'static str {
        match self {
            Outcome::Ok(_) => "ok",
            Outcome::ReserveErr => "reserve_err",
            Outcome::FmtErr => "fmt_err",
            Outcome::DecodeErr => "decode_err",
            Outcome::Panic(PanicKind::Reserve, _) => "panic_reserve",
            Outcome::Panic(PanicKind::Index, _) => "panic_index",
            Outcome::Panic(PanicKind::Injected(_), _) => "panic_injected",
            Outcome::Panic(PanicKind::Fmt, _) => "panic_fmt",
            Outcome::Panic(PanicKind::Other, _) => "panic_other",
        }
    }
    pub fn is_reserve_failure(&self) -> bool {
        matches!(self, Outcome::ReserveErr | Outcome::Panic(PanicKind::Reserve, _))
    }
}

pub fn classify_panic(payload: Box<dyn Any + Send>, model: bool) -> Outcome {
    if let Some(i) = payload.downcast_ref::<Injected>() {
        return Outcome::Panic(PanicKind::Injected(i.0), String::new());
    }
    let msg = if let Some(s) = payload.downcast_ref::<String>() {
        s.clone()
    } else if let Some(s) = payload.downcast_ref::<&'static str>() {
        s.to_string()
    } else {
        "<non-string panic payload>".to_string()
    };
    // the kind of a panic is recognised by the error text it carries, wherever in the message (only C05 cares whether
    // the message is exactly the error's: see C05.panic_message)
    let kind = if msg.contains(RESERVE_MSG) {
        PanicKind::Reserve
    } else if msg.contains("an error occurred when formatting")
        || msg.contains("a Display implementation returned an error")
        || msg.contains("a formatting trait implementation returned an error")
    {
        PanicKind::Fmt
    } else if model {
        // every panic of String on these operations is an index / boundary panic
        PanicKind::Index
    } else if msg.starts_with("index is not a char boundary or out of bounds")
        || msg.starts_with("index out of bounds (index:")
    {
        PanicKind::Index
    } else {
        PanicKind::Other
    };
    Outcome::Panic(kind, msg)
}

/// Install a silent panic hook once (expected panics are part of the contract).
pub fn silence_panics() {
    use std::sync::Once;
    static ONCE: Once = Once::new();
    ONCE.call_once(|| {
        let verbose = std::env::var_os("LSV_PANIC_VERBOSE").is_some();
        let default = std::panic::take_hook();
        std::panic::set_hook(Box::new(move |info| {
            if verbose {
                default(info);
            }
        }));
    });
}
