//! One step of a history: run the operation on the real strings and the model, evaluate every
//! oracle clause. Clause ids are `<property>.<clause>`.

use crate::apply::Resolved;
use crate::ir::*;
use crate::outcome::*;
use crate::shadow::{self, EvKind, Event};
use crate::statics;
use crate::world::*;
use std::collections::{BTreeSet, HashMap, HashSet};
use std::hash::{Hash, Hasher};

pub const MAX56: usize = (1usize << 56) - 1;

/// Sticky context of a history (what has been injected so far).
#[derive(Clone, Debug, Default)]
pub struct Ctx {
    pub fault_fired: bool,
    pub giant_refused: bool,
    pub injected_fired: bool,
    /// data pointers of heap blocks that have had a reference count >= 2
    pub was_shared: HashSet<usize>,
    /// tags for the non-trivial rules
    pub tags: BTreeSet<&'static str>,
    /// class labels for evidence histograms
    pub classes: Vec<String>,
    /// per-clause evaluation counts
    pub clause_evals: HashMap<&'static str, u64>,
    pub steps: u64,
    /// growth events seen: (pre kind, L, A)
    pub growth: Vec<(Kind, usize, usize)>,
}

impl Ctx {
    fn eval(&mut self, clause: &'static str) {
        *self.clause_evals.entry(clause).or_insert(0) += 1;
    }
    fn tag(&mut self, t: &'static str) {
        self.tags.insert(t);
    }
    fn class(&mut self, c: String) {
        self.classes.push(c);
    }
}

pub struct StepResult {
    pub failures: Vec<Failure>,
    /// the state can no longer be trusted; the history must stop and leak its handles
    pub fatal: bool,
    pub outcome: Outcome,
}

fn additional_of(op: &Op, r: &Resolved) -> Option<usize> {
    match op {
        Op::Push { ch, .. } | Op::Insert { ch, .. } => Some(ch.len_utf8()),
        Op::PushStr { .. } | Op::InsertStr { .. } | Op::AddAssign { .. } | Op::Add { .. } => Some(r.text.len()),
        Op::Reserve { .. } => Some(r.size),
        Op::Write { d, .. } if d.pieces.len() == 1 && d.err_at.is_none() && d.panic_at.is_none() => {
            Some(d.pieces[0].len())
        }
        _ => None,
    }
}

fn has_try_form(op: &Op) -> bool {
    matches!(
        op,
        Op::Push { .. }
            | Op::PushStr { .. }
            | Op::Pop { .. }
            | Op::Remove { .. }
            | Op::Insert { .. }
            | Op::InsertStr { .. }
            | Op::Truncate { .. }
            | Op::Retain { .. }
            | Op::Reserve { .. }
            | Op::ShrinkTo { .. }
            | Op::ShrinkToFit { .. }
            | Op::WithCapacity { .. }
            | Op::FromInt { .. }
            | Op::FromBool { .. }
    )
}

fn try_flag(op: &Op) -> bool {
    match op {
        Op::Push { try_, .. }
        | Op::PushStr { try_, .. }
        | Op::Pop { try_, .. }
        | Op::Remove { try_, .. }
        | Op::Insert { try_, .. }
        | Op::InsertStr { try_, .. }
        | Op::Truncate { try_, .. }
        | Op::Retain { try_, .. }
        | Op::Reserve { try_, .. }
        | Op::ShrinkTo { try_, .. }
        | Op::ShrinkToFit { try_, .. }
        | Op::WithCapacity { try_, .. }
        | Op::FromInt { try_, .. }
        | Op::FromBool { try_, .. }
        | Op::Display { try_, .. } => *try_,
        Op::FromChar { via, .. } => *via == CharVia::TryToLean,
        Op::Clone { via, .. } => *via == CloneVia::TryToLean,
        Op::FromText { via, .. } => *via == Via::Parse,
        _ => false,
    }
}

/// the property an unexpected panic in this operation is also attributed to
fn home_property(op: &Op) -> &'static str {
    match op {
        Op::ShrinkTo { .. } | Op::ShrinkToFit { .. } => "C13",
        Op::Reserve { .. } | Op::WithCapacity { .. } => "C11",
        Op::Remove { .. } | Op::Insert { .. } | Op::InsertStr { .. } | Op::Truncate { .. } => "C07",
        Op::Clone { .. } | Op::CloneFrom { .. } => "C08",
        Op::FromStatic { .. } => "C10",
        Op::FromInt { .. } => "C14",
        Op::Display { .. } | Op::FromBool { .. } | Op::FromChar { .. } => "C15",
        Op::FromUtf8Lossy { .. } | Op::FromUtf16 { .. } => "C16",
        Op::OptionRoundTrip { .. } => "C20",
        Op::Compare { .. } => "C17",
        _ => "C02",
    }
}

/// an append/insert on an inline string whose result still fits the inline storage
fn model_after_fits_inline(op: &Op, r: &Resolved, pre: Option<&str>) -> bool {
    let Some(pre) = pre else { return false };
    match additional_of(op, r) {
        Some(a) if !matches!(op, Op::Reserve { .. }) => pre.len() + a <= 16,
        _ => false,
    }
}

fn listed_short_route(op: &Op) -> Option<usize> {
    // constructors named by C09's statement; returns the byte length of the text
    match op {
        Op::FromText { via, text, .. } => match via {
            Via::Str | Via::String | Via::RefString | Via::BoxStr | Via::CowB | Via::CowO | Via::Parse | Via::Utf8
            | Via::ToLeanString
            | Via::TryToLeanString => Some(text.len()),
            _ => None,
        },
        _ => None,
    }
}

fn hash_str(s: &str) -> u64 {
    let mut h = std::collections::hash_map::DefaultHasher::new();
    s.hash(&mut h);
    h.finish()
}

fn fnv(s: &[u8]) -> u64 {
    struct Fnv(u64);
    impl Hasher for Fnv {
        fn finish(&self) -> u64 {
            self.0
        }
        fn write(&mut self, bytes: &[u8]) {
            for b in bytes {
                self.0 = (self.0 ^ *b as u64).wrapping_mul(0x100000001b3);
            }
        }
    }
    let mut h = Fnv(0xcbf29ce484222325);
    h.write(s);
    h.finish()
}

/// A non-streaming hasher (like FxHasher): every `write` call is folded in whole words and mixed with its own
/// length, so the result depends on how the text is split across calls. `Borrow<str>` lookups must work with
/// any `Hasher`, so a LeanString has to feed it exactly like the same str does.
fn word_hash<T: Hash + ?Sized>(t: &T) -> u64 {
    struct Word(u64);
    impl Word {
        fn add(&mut self, w: u64) {
            self.0 = (self.0.rotate_left(5) ^ w).wrapping_mul(0x517cc1b727220a95);
        }
    }
    impl Hasher for Word {
        fn finish(&self) -> u64 {
            self.0
        }
        fn write(&mut self, bytes: &[u8]) {
            for c in bytes.chunks(8) {
                let mut w = [0u8; 8];
                w[..c.len()].copy_from_slice(c);
                self.add(u64::from_le_bytes(w));
            }
            self.add(bytes.len() as u64 ^ 0xa5a5);
        }
        fn write_u8(&mut self, i: u8) {
            self.add(i as u64 | 0x100);
        }
    }
    let mut h = Word(0);
    t.hash(&mut h);
    h.finish()
}

fn fnv_hash<T: Hash + ?Sized>(t: &T) -> u64 {
    struct Fnv(u64);
    impl Hasher for Fnv {
        fn finish(&self) -> u64 {
            self.0
        }
        fn write(&mut self, bytes: &[u8]) {
            for b in bytes {
                self.0 = (self.0 ^ *b as u64).wrapping_mul(0x100000001b3);
            }
        }
    }
    let mut h = Fnv(0xcbf29ce484222325);
    t.hash(&mut h);
    h.finish()
}

impl World {
    pub fn step(&mut self, op: &Op, ctx: &mut Ctx) -> StepResult {
        let mut f: Vec<Failure> = Vec::new();
        ctx.steps += 1;
        let r = self.resolve(op);
        // source slots must exist before observing
        match op {
            Op::Clone { from, .. } | Op::Take { from, .. } | Op::WriteArg { from, .. } => self.ensure_live(*from),
            Op::CloneFrom { slot, from } => {
                self.ensure_live(*from);
                self.ensure_live(*slot);
            }
            Op::Swap { a, b } | Op::Compare { a, b } => {
                self.ensure_live(*a);
                self.ensure_live(*b);
            }
            Op::OptionRoundTrip { slot } => self.ensure_live(*slot),
            _ => {}
        }
        let pre = match self.observe_all() {
            Ok(p) => p,
            Err(mut fails) => {
                fails.retain(|x| x.clause != "C00.slot");
                return StepResult { failures: fails, fatal: true, outcome: Outcome::Ok(Ret::Unit) };
            }
        };
        let targets = op.targets();
        let tslot = op.mutated();
        let pre_t: Option<Obs> = tslot.and_then(|s| pre[s as usize].clone());
        let pre_model_t: Option<String> = tslot.and_then(|s| self.model[s as usize].clone());

        // ---- tags that depend on the pre-state only
        if let (Some(t), Some(po)) = (tslot, &pre_t) {
            if po.kind != Kind::Inline {
                ctx.tag("mut_non_inline");
            }
            let shares = (0..SLOTS).any(|j| {
                j != t as usize
                    && pre[j].as_ref().is_some_and(|o| o.kind == po.kind && o.kind != Kind::Inline && o.ptr == po.ptr)
            });
            if shares {
                ctx.tag("shared_mut");
                if po.kind == Kind::Static {
                    ctx.tag("shared_mut_static");
                }
            }
            ctx.class(format!("op.{}.{}", op.name(), po.state_name()));
        } else {
            ctx.class(format!("op.{}", op.name()));
        }
        if matches!(op, Op::Drop { .. } | Op::CloneFrom { .. }) || op.is_constructor() {
            // reassigning / dropping a handle that shares
            let t = targets[0] as usize;
            if let Some(po) = &pre[t] {
                if po.kind != Kind::Inline
                    && (0..SLOTS).any(|j| j != t && pre[j].as_ref().is_some_and(|o| o.kind == po.kind && o.ptr == po.ptr))
                {
                    ctx.tag("shared_mut");
                }
            }
        }

        // ---- run the real operation
        let real = self.apply_real(op, &r);
        let (events, heap_viol): (Vec<Event>, Vec<shadow::HeapViolation>) =
            shadow::with(|h| (h.events.clone(), std::mem::take(&mut h.violations)));
        // requests of the crate's own buffer management, plus (where measurable) any other heap allocation made
        // inside the call
        let other_allocs = self.last_other_allocs.unwrap_or(0) as usize;
        let requests = events.iter().filter(|e| e.kind != EvKind::Dealloc).count() + other_allocs;
        if other_allocs > 0 {
            ctx.class(format!("other_allocs.{}", op.name()));
        }
        let fault_refusals = events.iter().filter(|e| matches!(e.kind, EvKind::FaultAlloc | EvKind::FaultRealloc)).count();
        let giant_refusals = events.iter().filter(|e| matches!(e.kind, EvKind::GiantAlloc | EvKind::GiantRealloc)).count();
        let refusals = fault_refusals + giant_refusals;
        if fault_refusals > 0 {
            ctx.fault_fired = true;
        }
        if giant_refusals > 0 {
            ctx.giant_refused = true;
        }
        for v in &heap_viol {
            f.push(Failure::new(&format!("C03.{}", v.clause), v.detail.clone()));
        }
        ctx.class(format!("outcome.{}", real.class()));
        ctx.eval("C03.inline_overflow");
        if let Some(i) = self.slots.damaged() {
            for c in ["C03.inline_overflow", "C01.inline_overflow"] {
                f.push(Failure::new(c, format!("{} wrote past the 16 bytes of the handle in slot {i} (memory behind the inline buffer was modified)", op.name())));
            }
            if pre_t.as_ref().is_some_and(|p| p.kind == Kind::Static) {
                f.push(Failure::new("C10.inline_overflow", format!("{} on a static string wrote past the handle's inline storage", op.name())));
            }
            self.slots.repair();
            self.alias_context(&mut f, ctx, false, op);
            return StepResult { failures: f, fatal: true, outcome: real };
        }

        // ---- decide what the model does
        let mut fatal = false;
        let size_out_of_range = match op {
            Op::WithCapacity { .. } => r.size > MAX56,
            Op::Reserve { .. } => pre_t.as_ref().is_some_and(|p| p.len.checked_add(r.size).is_none_or(|n| n > MAX56)),
            _ => false,
        };
        let has_size_arg = matches!(op, Op::WithCapacity { .. } | Op::Reserve { .. } | Op::ShrinkTo { .. })
            || matches!(op, Op::Extend { it, .. } | Op::Collect { it, .. } if it.hint.is_some());
        match &real {
            Outcome::Ok(ret) => {
                let m = self.apply_model(op, &r);
                match (&m, op) {
                    (_, Op::OptionRoundTrip { slot }) => {
                        ctx.eval("C20.some_is_some");
                        if *ret != Ret::Bool(true) {
                            f.push(Failure::new(
                                "C20.some_is_some",
                                format!("slot {slot}: Some(s) was matched as None (is_some() = false)"),
                            ));
                            fatal = true;
                        }
                    }
                    (Outcome::Ok(mret), _) => {
                        ctx.eval("C01.return_value");
                        if mret != ret {
                            f.push(Failure::new(
                                "C01.return_value",
                                format!("{} returned {:?}, String returned {:?}", op.name(), ret, mret),
                            ));
                        }
                    }
                    (Outcome::Panic(PanicKind::Index, msg), _) => {
                        for c in ["C07.panic_parity", "C01.panic_parity"] {
                            f.push(Failure::new(
                                c,
                                format!("{} with index {} succeeded, String panics: {msg}", op.name(), r.idx),
                            ));
                        }
                        fatal = true;
                    }
                    (other, _) => {
                        f.push(Failure::new(
                            "C01.outcome_parity",
                            format!("{} succeeded, model outcome is {}", op.name(), other.class()),
                        ));
                        if matches!(op, Op::Display { .. }) {
                            f.push(Failure::new(
                                "C15.fmt_error",
                                format!("to_lean_string succeeded although Display reported {}", other.class()),
                            ));
                        }
                        if matches!(other, Outcome::Panic(PanicKind::Injected(_), _)) {
                            f.push(Failure::new(
                                "C18.panic_swallowed",
                                format!("{} returned normally although its callback panicked in the model run", op.name()),
                            ));
                        }
                        if matches!(other, Outcome::DecodeErr) {
                            f.push(Failure::new(
                                "C16.accepts_invalid",
                                format!("{} accepted an input std rejects", op.name()),
                            ));
                        }
                        fatal = true;
                    }
                }
            }
            Outcome::ReserveErr | Outcome::Panic(PanicKind::Reserve, _) => {
                let legit = refusals > 0 || size_out_of_range;
                ctx.eval("C05.spurious_error");
                if !legit {
                    let clauses: &[&str] = if has_size_arg {
                        &["C06.spurious_error", "C01.spurious_error"]
                    } else {
                        &["C05.spurious_error", "C01.spurious_error"]
                    };
                    for c in clauses {
                        f.push(Failure::new(
                            c,
                            format!(
                                "{} failed with ReserveError ({}) although no allocator request was refused and no size limit exceeded (size {})",
                                op.name(),
                                real.class(),
                                r.size
                            ),
                        ));
                    }
                }
                // "the plain form panics with that error's message"
                if let Outcome::Panic(PanicKind::Reserve, msg) = &real {
                    ctx.eval("C05.panic_message");
                    if msg != crate::outcome::RESERVE_MSG {
                        f.push(Failure::new("C05.panic_message", format!("{} panicked with {msg:?}, which is not the error's own message {:?}", op.name(), crate::outcome::RESERVE_MSG)));
                    }
                }
                // FromStr::from_str / str::parse is a fallible form too: its only error is ReserveError
                let fallible = (try_flag(op) && has_try_form(op)) || matches!(op, Op::FromText { via: Via::Parse | Via::TryToLeanString, .. });
                if matches!(real, Outcome::Panic(..)) && fallible {
                    for c in ["C05.try_form_panicked", "C06.try_form_panicked"] {
                        f.push(Failure::new(c, format!("try_ form of {} panicked instead of returning ReserveError", op.name())));
                    }
                }
                // an index that String rejects must be rejected as an index error, before anything else
                if let Op::Insert { .. } | Op::InsertStr { .. } | Op::Remove { .. } | Op::Truncate { .. } = op {
                    if let Some(m) = &pre_model_t {
                        let bad = match op {
                            Op::Remove { .. } => r.idx >= m.len() || !m.is_char_boundary(r.idx),
                            Op::Truncate { .. } => r.idx <= m.len() && !m.is_char_boundary(r.idx),
                            _ => r.idx > m.len() || !m.is_char_boundary(r.idx),
                        };
                        ctx.eval("C07.panic_parity");
                        if bad {
                            for c in ["C07.panic_parity", "C01.panic_parity"] {
                                f.push(Failure::new(
                                    c,
                                    format!(
                                        "{} with index {} on a {}-byte text: String panics on this index, LeanString reported {} instead",
                                        op.name(),
                                        r.idx,
                                        m.len(),
                                        real.class()
                                    ),
                                ));
                            }
                        }
                    }
                }
                if fault_refusals > 0 {
                    ctx.tag("fault_observed");
                    ctx.class(format!(
                        "fault_observed.{}.{}",
                        op.name(),
                        pre_t.as_ref().map(|p| p.state_name()).unwrap_or_else(|| "ctor".into())
                    ));
                }
                // model: the call had no effect, except that iterator-driven calls may stop between items
                match op {
                    Op::WriteArg { slot, .. } => {
                        // formatting writes in pieces of unknown size: accept any prefix of the full result
                        let old = pre_model_t.clone().unwrap_or_default();
                        let mut probe = self.clone_model();
                        let full = {
                            let _ = probe.apply_model(op, &r);
                            probe.model[*slot as usize].clone().unwrap_or_default()
                        };
                        let observed: Option<String> = self.slots[*slot as usize].as_ref().and_then(|s| std::str::from_utf8(s.as_bytes()).ok().map(|x| x.to_string()));
                        match observed {
                            Some(o) if o.starts_with(old.as_str()) && full.starts_with(o.as_str()) => self.model[*slot as usize] = Some(o),
                            other => {
                                f.push(Failure::new("C05.whole_items", format!("after a failed write! the target holds {other:?}, not a prefix of {full:?}")));
                                fatal = true;
                            }
                        }
                    }
                    Op::Extend { slot, .. } | Op::Write { slot, .. } => {
                        let items: Vec<String> = match op {
                            Op::Extend { it, .. } => match it.kind {
                                IterKind::Char | IterKind::RefChar => {
                                    it.items.iter().flat_map(|s| s.chars()).map(|c| c.to_string()).collect()
                                }
                                IterKind::LeanSlots => it
                                    .slots
                                    .iter()
                                    .map(|&s| {
                                        if s == *slot {
                                            pre_model_t.clone().unwrap_or_default()
                                        } else {
                                            self.model[s as usize % SLOTS].clone().unwrap_or_default()
                                        }
                                    })
                                    .collect(),
                                _ => it.items.clone(),
                            },
                            Op::Write { d, .. } => d.pieces.clone(),
                            _ => unreachable!(),
                        };
                        let old = pre_model_t.clone().unwrap_or_default();
                        let observed: Option<String> = self.slots[*slot as usize]
                            .as_ref()
                            .and_then(|s| std::str::from_utf8(s.as_bytes()).ok().map(|x| x.to_string()));
                        let mut acc = old.clone();
                        let mut ok = observed.as_deref() == Some(acc.as_str());
                        if !ok {
                            for it in &items {
                                acc.push_str(it);
                                if observed.as_deref() == Some(acc.as_str()) {
                                    ok = true;
                                    break;
                                }
                            }
                        }
                        ctx.eval("C05.whole_items");
                        if ok {
                            self.model[*slot as usize] = Some(acc);
                        } else {
                            f.push(Failure::new(
                                "C05.whole_items",
                                format!(
                                    "after a failed {} the target holds {:?}, which is not the old value {:?} plus a prefix of whole items",
                                    op.name(),
                                    observed,
                                    old
                                ),
                            ));
                            fatal = true;
                        }
                    }
                    Op::Add { slot, .. } => {
                        // `s + x` consumed s; a String would be gone as well
                        if self.slots[*slot as usize].is_none() {
                            self.model[*slot as usize] = None;
                        }
                    }
                    _ => {}
                }
            }
            Outcome::Panic(PanicKind::Index, msg) => {
                let m = self.apply_model(op, &r);
                ctx.eval("C07.panic_parity");
                ctx.tag("index_panic");
                if let Some(p) = &pre_t {
                    if p.kind != Kind::Inline {
                        ctx.tag("index_panic_non_inline");
                    }
                    ctx.class(format!("index_panic.{}.{}", op.name(), p.state_name()));
                }
                if !matches!(m, Outcome::Panic(PanicKind::Index, _)) {
                    for c in ["C07.panic_parity", "C01.panic_parity"] {
                        f.push(Failure::new(
                            c,
                            format!(
                                "{} with index {} panicked ({msg}), String does not panic (model outcome {})",
                                op.name(),
                                r.idx,
                                m.class()
                            ),
                        ));
                    }
                    fatal = true;
                }
                ctx.eval("C07.no_effect");
                if requests > 0 || !events.is_empty() {
                    f.push(Failure::new(
                        "C07.no_effect",
                        format!("{} panicked on a bad index after touching the allocator ({} events)", op.name(), events.len()),
                    ));
                }
            }
            Outcome::Panic(PanicKind::Injected(k), _) => {
                ctx.injected_fired = true;
                ctx.tag("injected_fired");
                if let Some(p) = &pre_t {
                    if *k >= 1 && (p.kind != Kind::Inline) {
                        ctx.tag("injected_nontrivial");
                    }
                    ctx.class(format!("injected.{}.{}", op.name(), p.state_name()));
                } else {
                    if *k >= 1 {
                        ctx.tag("injected_nontrivial");
                    }
                    ctx.class(format!("injected.{}.ctor", op.name()));
                }
                let m = self.apply_model(op, &r);
                ctx.eval("C18.panic_parity");
                if !matches!(m, Outcome::Panic(PanicKind::Injected(_), _)) {
                    f.push(Failure::new(
                        "C18.panic_parity",
                        format!("callback panic escaped {} but not the same call on String ({})", op.name(), m.class()),
                    ));
                    fatal = true;
                }
                if let Op::Add { slot, .. } = op {
                    if self.slots[*slot as usize].is_none() {
                        self.model[*slot as usize] = None;
                    }
                }
            }
            Outcome::Panic(PanicKind::Fmt, _) | Outcome::FmtErr | Outcome::DecodeErr => {
                let m = self.apply_model(op, &r);
                ctx.eval("C15.fmt_error");
                let same = match (&real, &m) {
                    (Outcome::Panic(PanicKind::Fmt, _), Outcome::Panic(PanicKind::Fmt, _)) => true,
                    (Outcome::FmtErr, Outcome::FmtErr) => true,
                    (Outcome::DecodeErr, Outcome::DecodeErr) => true,
                    _ => false,
                };
                if !same {
                    let c = if matches!(real, Outcome::DecodeErr) { "C16.rejects_valid" } else { "C15.fmt_error" };
                    for c in [c, "C01.outcome_parity"] {
                        f.push(Failure::new(
                            c,
                            format!("{}: outcome {} but the model's outcome is {}", op.name(), real.class(), m.class()),
                        ));
                    }
                    fatal = true;
                }
            }
            Outcome::Panic(PanicKind::Other, msg) => {
                let mut cs = vec!["C01.unexpected_panic".to_string(), format!("{}.unexpected_panic", home_property(op))];
                if pre_t.as_ref().is_some_and(|p| p.kind == Kind::Static) {
                    cs.push("C10.unexpected_panic".to_string());
                }
                if pre_t.as_ref().is_some_and(|p| p.kind == Kind::Inline) && model_after_fits_inline(op, &r, pre_model_t.as_deref()) {
                    cs.push("C09.unexpected_panic".to_string());
                }
                for c in cs {
                    f.push(Failure::new(&c, format!("{} panicked unexpectedly: {msg}", op.name())));
                }
                fatal = true;
            }
        }

        self.neighbour_acted = self.last_fx.is_some();
        if let Some((_, dropped)) = self.last_fx {
            ctx.class(format!("neighbour_{}.{}", if dropped { "drop" } else { "clone" }, op.name()));
        }
        // a handle dropped by a callback is gone in the model too, whatever the outcome of the call
        if let Some((slot, true)) = self.last_fx {
            if self.slots[slot as usize].is_none() {
                self.model[slot as usize] = None;
            }
        }
        self.last_fx = None;

        // ---- slot liveness agreement
        for i in 0..SLOTS {
            if self.slots[i].is_some() != self.model[i].is_some() {
                f.push(Failure::new(
                    "C01.liveness",
                    format!("slot {i}: real value present = {}, model present = {}", self.slots[i].is_some(), self.model[i].is_some()),
                ));
                fatal = true;
            }
        }
        if fatal {
            self.alias_context(&mut f, ctx, has_size_arg, op);
            return StepResult { failures: f, fatal: true, outcome: real };
        }

        // ---- post observation
        let post = match self.observe_all() {
            Ok(p) => p,
            Err(mut fails) => {
                // a handle that is not the target of this operation can no longer be read: isolation is broken
                let slot: Option<usize> = fails.iter().find(|x| x.clause == "C00.slot").and_then(|x| x.detail.parse().ok());
                fails.retain(|x| x.clause != "C00.slot");
                if let Some(i) = slot {
                    if !targets.contains(&(i as Slot)) {
                        let d = fails.first().map(|x| x.detail.clone()).unwrap_or_default();
                        fails.push(Failure::new("C02.unreadable_other_handle", format!("after {} on another handle: {d}", op.name())));
                    }
                }
                f.append(&mut fails);
                self.alias_context(&mut f, ctx, has_size_arg, op);
                return StepResult { failures: f, fatal: true, outcome: real };
            }
        };
        let heap_viol2: Vec<shadow::HeapViolation> = shadow::with(|h| {
            h.check_live_guards();
            std::mem::take(&mut h.violations)
        });
        for v in &heap_viol2 {
            f.push(Failure::new(&format!("C03.{}", v.clause), v.detail.clone()));
            fatal = true;
        }

        // ---- values (C01), capacity promise (C11), block bounds (C03)
        for i in 0..SLOTS {
            let (Some(s), Some(m), Some(o)) = (self.slots[i].as_ref(), self.model[i].as_ref(), post[i].as_ref()) else {
                continue;
            };
            ctx.eval("C01.value");
            let bytes = s.as_bytes();
            let is_target = targets.contains(&(i as Slot));
            match std::str::from_utf8(bytes) {
                Err(e) => {
                    for c in ["C01.utf8", "C07.utf8"] {
                        f.push(Failure::new(c, format!("slot {i}: bytes are not valid UTF-8 ({e}); model {:?}", m)));
                    }
                    if !is_target {
                        f.push(Failure::new("C02.text", format!("slot {i} (not the target of {}) no longer reads valid text", op.name())));
                    }
                    fatal = true;
                    continue;
                }
                Ok(text) => {
                    if text != m.as_str() || s.as_str() != m.as_str() || s.len() != m.len() || s.is_empty() != m.is_empty() {
                        f.push(Failure::new(
                            "C01.value",
                            format!("slot {i} after {}: reads {:?} (len {}), String holds {:?} (len {})", op.name(), text, s.len(), m, m.len()),
                        ));
                        if !is_target {
                            f.push(Failure::new(
                                "C02.text",
                                format!("slot {i} is not the target of {} but its text changed to {:?} (expected {:?})", op.name(), text, m),
                            ));
                        }
                        if pre[i].as_ref().is_some_and(|p| p.kind == Kind::Static) || o.kind == Kind::Static {
                            f.push(Failure::new(
                                "C10.contents",
                                format!("slot {i} (a handle of a static text) after {}: reads {:?}, expected {:?}", op.name(), text, m),
                            ));
                        }
                        fatal = true;
                    }
                }
            }
            ctx.eval("C11.cap_ge_len");
            if o.cap < o.len {
                f.push(Failure::new("C11.cap_ge_len", format!("slot {i}: capacity {} < len {}", o.cap, o.len)));
            }
            if let Some((start, size)) = o.block {
                ctx.eval("C03.capacity_in_block");
                if o.ptr - start + o.cap > size {
                    for c in ["C03.capacity_in_block", "C11.capacity_in_block"] {
                        f.push(Failure::new(
                            c,
                            format!(
                                "slot {i}: text at offset {} with reported capacity {} does not fit its {}-byte allocation",
                                o.ptr - start,
                                o.cap,
                                size
                            ),
                        ));
                    }
                }
            }
        }

        // ---- isolation (C02): handles that are not targets keep their handle bytes, pointer, length
        for i in 0..SLOTS {
            if targets.contains(&(i as Slot)) {
                continue;
            }
            if let (Some(a), Some(b)) = (&pre[i], &post[i]) {
                ctx.eval("C02.handle_unchanged");
                if a.raw != b.raw || a.ptr != b.ptr || a.len != b.len {
                    f.push(Failure::new(
                        "C02.handle_unchanged",
                        format!(
                            "slot {i} is not the target of {} but its handle changed: ptr {:#x}->{:#x}, len {}->{}, raw {:02x?}->{:02x?}",
                            op.name(),
                            a.ptr,
                            b.ptr,
                            a.len,
                            b.len,
                            a.raw,
                            b.raw
                        ),
                    ));
                }
            }
        }

        // ---- reference counts (C03)
        {
            let mut by_ptr: HashMap<usize, (usize, Vec<usize>, BTreeSet<usize>)> = HashMap::new();
            for i in 0..SLOTS {
                if let Some(o) = &post[i] {
                    if o.kind == Kind::Heap {
                        let e = by_ptr.entry(o.ptr).or_insert((0, vec![], BTreeSet::new()));
                        e.0 += 1;
                        e.1.push(o.rc.unwrap_or(0));
                        e.2.insert(o.len);
                    }
                }
            }
            for (ptr, (n, rcs, lens)) in &by_ptr {
                ctx.eval("C03.refcount");
                if rcs.iter().any(|rc| rc != n) {
                    f.push(Failure::new(
                        "C03.refcount",
                        format!("buffer {ptr:#x}: {n} live handle(s) but the reference count reads {:?} after {}", rcs, op.name()),
                    ));
                }
                if *n >= 2 {
                    ctx.was_shared.insert(*ptr);
                    ctx.tag("shared");
                    if lens.len() >= 2 {
                        ctx.tag("diff_len_shared");
                    }
                }
            }
            // every live block is reachable from a handle (nothing leaked so far)
            let live: Vec<(usize, usize)> = shadow::with(|h| h.live.values().map(|b| (b.start, b.size)).collect());
            ctx.eval("C03.orphan_block");
            for (start, size) in live {
                let reachable = by_ptr.keys().any(|p| *p >= start && *p <= start + size);
                if !reachable {
                    f.push(Failure::new(
                        "C03.orphan_block",
                        format!("a {size}-byte block is still allocated after {} but no live handle points into it (leak)", op.name()),
                    ));
                }
            }
            for e in &events {
                if e.kind == EvKind::Dealloc || e.kind == EvKind::Realloc {
                    // freed/moved blocks that were shared at some time
                    if ctx.was_shared.iter().any(|p| *p >= e.addr && *p <= e.addr + e.size.max(e.old_size)) && e.kind == EvKind::Dealloc {
                        ctx.tag("shared_block_freed");
                    }
                }
            }
        }

        // ---- static texts are never written (C10)
        ctx.eval("C10.static_pristine");
        if let Some(k) = statics::pool().all_pristine() {
            f.push(Failure::new("C10.static_pristine", format!("static text #{k} was modified by {}", op.name())));
            // a static text is data the caller shares with every other handle and with the &'static str itself
            let t = statics::pool().texts[k];
            let (lo, hi) = (t.as_ptr() as usize, t.as_ptr() as usize + t.len());
            let target = op.mutated();
            if (0..SLOTS).any(|i| Some(i as Slot) != target && post[i].as_ref().is_some_and(|o| o.kind == Kind::Static && o.ptr >= lo && o.ptr <= hi)) {
                f.push(Failure::new("C02.static_text_modified", format!("{} wrote into static text #{k}, which another live handle borrows", op.name())));
            }
            statics::pool().restore();
            fatal = true;
        }

        // ---- operation-specific clauses
        let real_ok = matches!(real, Outcome::Ok(_));
        self.op_clauses(op, &r, &pre, &post, &pre_t, &pre_model_t, &events, requests, real_ok, &real, ctx, &mut f);

        self.alias_context(&mut f, ctx, has_size_arg, op);
        StepResult { failures: f, fatal, outcome: real }
    }

    /// Failures that happen after an injected fault / giant request / callback panic are also
    /// violations of the property that covers those situations.
    fn alias_context(&self, f: &mut Vec<Failure>, ctx: &Ctx, size_op: bool, op: &Op) {
        let mut extra = Vec::new();
        for x in f.iter() {
            let p = x.property().to_string();
            let tail = x.clause.replace('.', "_");
            if ctx.fault_fired && p != "C05" && matches!(p.as_str(), "C01" | "C02" | "C03") {
                extra.push(Failure::new(&format!("C05.after_fault_{tail}"), x.detail.clone()));
            }
            if ctx.giant_refused && p != "C06" && matches!(p.as_str(), "C01" | "C02" | "C03") {
                extra.push(Failure::new(&format!("C06.after_refusal_{tail}"), x.detail.clone()));
            }
            if size_op && p != "C06" && matches!(p.as_str(), "C01" | "C02" | "C03") {
                extra.push(Failure::new(&format!("C06.size_op_{tail}"), x.detail.clone()));
            }
            // "shrinking never changes the text of any string", "the copy compares equal to the original"
            let breaks_text = matches!(p.as_str(), "C01" | "C02")
                || matches!(x.clause.as_str(), "C03.dangling_handle" | "C03.len_out_of_block" | "C03.use_after_free" | "C03.access_out_of_block");
            if breaks_text && matches!(op, Op::ShrinkTo { .. } | Op::ShrinkToFit { .. }) {
                extra.push(Failure::new(&format!("C13.text_{tail}"), x.detail.clone()));
            }
            if breaks_text && matches!(op, Op::Clone { .. } | Op::CloneFrom { .. }) {
                extra.push(Failure::new(&format!("C08.copy_{tail}"), x.detail.clone()));
            }
            if ctx.injected_fired && p != "C18" && matches!(p.as_str(), "C01" | "C02" | "C03") {
                extra.push(Failure::new(&format!("C18.after_panic_{tail}"), x.detail.clone()));
            }
        }
        f.extend(extra);
    }

    #[allow(clippy::too_many_arguments)]
    fn op_clauses(
        &mut self,
        op: &Op,
        r: &Resolved,
        pre: &[Option<Obs>; SLOTS],
        post: &[Option<Obs>; SLOTS],
        pre_t: &Option<Obs>,
        pre_model_t: &Option<String>,
        events: &[Event],
        requests: usize,
        real_ok: bool,
        real: &Outcome,
        ctx: &mut Ctx,
        f: &mut Vec<Failure>,
    ) {
        let name = op.name();
        let post_t: Option<&Obs> = op.mutated().and_then(|s| post[s as usize].as_ref());
        let model_len_after: Option<usize> = op.mutated().and_then(|s| self.model[s as usize].as_ref().map(|m| m.len()));

        // transitions
        if let (Some(a), Some(b)) = (pre_t.as_ref(), post_t) {
            if a.kind != b.kind {
                ctx.tag("transition");
                ctx.class(format!("transition.{}->{}", a.kind.name(), b.kind.name()));
            }
            if a.kind == Kind::Heap && a.cap < 16 {
                ctx.class("tiny_heap".into());
            }
            if real_ok
                && a.kind == Kind::Heap
                && b.kind == Kind::Heap
                && a.ptr == b.ptr
                && ctx.was_shared.contains(&a.ptr)
                && a.rc == Some(1)
                && matches!(op, Op::Push { .. } | Op::PushStr { .. } | Op::Insert { .. } | Op::InsertStr { .. } | Op::Remove { .. } | Op::Retain { .. } | Op::AddAssign { .. } | Op::Write { .. } | Op::Extend { .. })
            {
                ctx.tag("inplace_after_unique");
            }
            if a.kind == Kind::Heap && a.rc.unwrap_or(1) >= 2 && matches!(op, Op::Truncate { .. } | Op::Pop { .. }) && b.len < a.len {
                ctx.tag("truncated_while_shared");
            }
        }

        // ---- failed / panicking call leaves the target untouched (C05 / C06 / C07)
        if matches!(real, Outcome::ReserveErr | Outcome::Panic(PanicKind::Reserve, _) | Outcome::Panic(PanicKind::Index, _))
            && !matches!(op, Op::Extend { .. } | Op::Write { .. } | Op::WriteArg { .. })
        {
            if let (Some(a), Some(b)) = (pre_t.as_ref(), post_t) {
                let clause: &'static str = if matches!(real, Outcome::Panic(PanicKind::Index, _)) {
                    "C07.no_effect"
                } else if matches!(op, Op::Reserve { .. } | Op::ShrinkTo { .. }) && !ctx.fault_fired {
                    "C06.no_effect"
                } else {
                    "C05.no_effect"
                };
                ctx.eval(clause);
                // the value is compared by C01.value; here: the handle must still describe the very same storage
                // (same handle bytes, pointer, capacity, reference count): a refused call has no effect at all
                // (when a callback or the neighbour thread released or took a reference meanwhile, the count differs
                // for that reason)
                let same = if self.neighbour_acted { Obs { rc: None, ..a.clone() } == Obs { rc: None, ..b.clone() } } else { a == b };
                if !same {
                    f.push(Failure::new(
                        clause,
                        format!("{name} failed ({}) but the target changed: {:?} -> {:?}", real.class(), a, b),
                    ));
                    // "... or leave the target changed after a failure" (C06) also covers a size operation that
                    // fails because the allocator refused an ordinary request
                    if clause == "C05.no_effect" && matches!(op, Op::Reserve { .. } | Op::ShrinkTo { .. }) {
                        f.push(Failure::new(
                            "C06.no_effect",
                            format!("{name} failed ({}) but the target changed: {:?} -> {:?}", real.class(), a, b),
                        ));
                    }
                }
                // a call that fails without writing anything has no reason to stop borrowing a static text
                if a.kind == Kind::Static && (b.kind != Kind::Static || b.ptr != a.ptr) {
                    f.push(Failure::new(
                        "C10.keep_borrowing",
                        format!("{name} failed ({}) without writing, yet the static handle moved to {} storage", real.class(), b.kind.name()),
                    ));
                }
            }
        }

        // ---- C08 cloning
        let clone_src: Option<(Slot, Slot)> = match op {
            Op::Clone { slot, from, .. } => Some((*slot, *from)),
            Op::CloneFrom { slot, from } if slot != from => Some((*slot, *from)),
            _ => None,
        };
        if let (Some((dst, src)), true) = (clone_src, real_ok) {
            if let (Some(s), Some(d)) = (&pre[src as usize], &post[dst as usize]) {
                ctx.eval("C08.no_alloc");
                if requests != 0 {
                    f.push(Failure::new("C08.no_alloc", format!("{name} of a {} string of {} bytes issued {requests} allocator request(s)", s.kind.name(), s.len)));
                }
                match s.kind {
                    Kind::Heap | Kind::Static => {
                        ctx.tag("clone_heap_or_static");
                        ctx.eval("C08.same_ptr");
                        if d.ptr != s.ptr || d.kind != s.kind {
                            f.push(Failure::new(
                                "C08.same_ptr",
                                format!("{name} of a {} string: copy points to {:#x} ({}), original to {:#x}", s.kind.name(), d.ptr, d.kind.name(), s.ptr),
                            ));
                            if s.kind == Kind::Static {
                                f.push(Failure::new("C10.clone_borrows", format!("clone of a static string no longer points at the static text")));
                            }
                        }
                    }
                    Kind::Inline => {
                        ctx.eval("C08.inline_copy");
                        if d.raw != s.raw {
                            f.push(Failure::new("C08.inline_copy", format!("{name} of an inline string is not a 2-word copy: {:02x?} vs {:02x?}", d.raw, s.raw)));
                        }
                    }
                }
                if d.len != s.len {
                    f.push(Failure::new("C08.equal", format!("{name}: copy has len {}, original {}", d.len, s.len)));
                }
            }
        }

        // ---- C09 constructors and inline edits
        if real_ok {
            let short_len: Option<usize> = match op {
                Op::FromChar { ch, .. } => Some(ch.len_utf8()),
                Op::FromBool { .. } | Op::FromInt { .. } => self.model[op.targets()[0] as usize].as_ref().map(|m| m.len()),
                _ => listed_short_route(op),
            };
            if let Some(n) = short_len {
                let d = post[op.targets()[0] as usize].as_ref();
                if n <= 16 {
                    ctx.eval("C09.short_no_alloc");
                    if requests != 0 || d.is_some_and(|d| d.kind == Kind::Heap) {
                        f.push(Failure::new(
                            "C09.short_no_alloc",
                            format!("{name}: a {n}-byte text issued {requests} allocator request(s), heap = {:?}", d.map(|d| d.kind == Kind::Heap)),
                        ));
                    }
                } else if listed_short_route(op).is_some() {
                    ctx.eval("C09.long_exact");
                    let allocs: Vec<&Event> = events.iter().filter(|e| e.kind == EvKind::Alloc).collect();
                    let ok = requests == 1 && allocs.len() == 1 && allocs[0].size >= n && d.is_some_and(|d| d.kind == Kind::Heap && d.cap == n);
                    if !ok {
                        f.push(Failure::new(
                            "C09.long_exact",
                            format!(
                                "{name}: a {n}-byte text issued {requests} request(s) (alloc sizes {:?}), capacity {:?}",
                                allocs.iter().map(|e| e.size).collect::<Vec<_>>(),
                                d.map(|d| d.cap)
                            ),
                        ));
                    }
                }
            }
        }
        if let (Some(a), Some(b), Some(ml)) = (pre_t.as_ref(), post_t, model_len_after) {
            if a.kind == Kind::Inline
                && ml <= 16
                && matches!(
                    op,
                    Op::Push { .. } | Op::PushStr { .. } | Op::Insert { .. } | Op::InsertStr { .. } | Op::Pop { .. } | Op::Remove { .. } | Op::Retain { .. } | Op::Truncate { .. } | Op::Clear { .. }
                )
                && !real.is_reserve_failure()
            {
                ctx.eval("C09.inline_edit");
                if requests != 0 || b.kind != Kind::Inline {
                    f.push(Failure::new(
                        "C09.inline_edit",
                        format!("{name} on an inline string (result {ml} bytes) issued {requests} request(s), storage after: {}", b.kind.name()),
                    ));
                }
            }
        }

        // ---- C10 static strings
        if let (Op::FromStatic { slot, k }, true) = (op, real_ok) {
            let text = statics::pool().get(*k);
            ctx.eval("C10.from_static");
            if requests != 0 {
                f.push(Failure::new("C10.from_static", format!("from_static_str of {} bytes issued {requests} allocator request(s)", text.len())));
            }
            if text.len() > 16 {
                ctx.tag("static_long");
                if let Some(d) = &post[*slot as usize] {
                    if d.ptr != text.as_ptr() as usize || d.kind != Kind::Static {
                        f.push(Failure::new(
                            "C10.from_static",
                            format!("from_static_str of {} bytes does not point at the caller's bytes ({})", text.len(), d.kind.name()),
                        ));
                    }
                }
            }
        }
        if let (Some(a), Some(b)) = (pre_t.as_ref(), post_t) {
            if a.kind == Kind::Static {
                if matches!(op, Op::Pop { .. } | Op::Truncate { .. } | Op::Clear { .. }) && real_ok {
                    ctx.eval("C10.keep_borrowing");
                    if a.len > 16 || a.cap > 16 {
                        ctx.tag("static_nonalloc_op");
                    }
                    if requests != 0 {
                        f.push(Failure::new("C10.keep_borrowing", format!("{name} on a static string issued {requests} allocator request(s)")));
                    }
                    // "keep doing so": the handle still points at the caller's bytes (also after clear, with length 0)
                    if b.kind != Kind::Static || b.ptr != a.ptr {
                        f.push(Failure::new(
                            "C10.keep_borrowing",
                            format!("{name} on a static string moved it to {} storage", b.kind.name()),
                        ));
                    }
                } else if b.kind != Kind::Static && real_ok {
                    ctx.tag("static_write_op");
                }
            }
        }

        // ---- C11 capacity promise
        if let (Op::WithCapacity { slot, .. }, true) = (op, real_ok) {
            if let Some(d) = &post[*slot as usize] {
                ctx.eval("C11.with_capacity");
                if d.cap < r.size || d.len != 0 {
                    for c in ["C11.with_capacity", "C06.postcondition"] {
                        f.push(Failure::new(c, format!("with_capacity({}) gave capacity {} len {}", r.size, d.cap, d.len)));
                    }
                }
                if r.size >= 1 << 20 {
                    ctx.tag("giant_nontrivial");
                }
            }
        }
        if let (Op::Reserve { .. }, true, Some(a), Some(b)) = (op, real_ok, pre_t.as_ref(), post_t) {
            ctx.eval("C11.reserve_post");
            if a.kind != Kind::Inline && (a.kind == Kind::Static || a.rc.unwrap_or(1) >= 2) {
                ctx.tag("reserve_shared_or_static");
            }
            if b.cap < a.len.saturating_add(r.size) {
                for c in ["C11.reserve_post", "C06.postcondition"] {
                    f.push(Failure::new(c, format!("reserve({}) on len {} succeeded with capacity {}", r.size, a.len, b.cap)));
                }
            }
            let exclusive = b.kind == Kind::Inline || (b.kind == Kind::Heap && b.rc == Some(1));
            if !exclusive {
                f.push(Failure::new(
                    "C11.reserve_exclusive",
                    format!("after reserve({}) the handle is {} with reference count {:?}", r.size, b.kind.name(), b.rc),
                ));
            }
        }
        if let (Some(a), Some(b), Some(ml), true) = (pre_t.as_ref(), post_t, model_len_after, real_ok) {
            // a lying size hint makes extend reserve more than it appends; an iterator of clones of the
            // target itself means the target is shared (by the caller) while the call runs
            let honest = !matches!(op, Op::Extend { it, slot, .. } if it.hint.is_some() || (it.kind == IterKind::LeanSlots && it.slots.contains(slot)));
            let appendish = matches!(
                op,
                Op::Push { .. } | Op::PushStr { .. } | Op::Insert { .. } | Op::InsertStr { .. } | Op::AddAssign { .. } | Op::Add { .. } | Op::Write { .. } | Op::Extend { .. }
            ) && !matches!(op, Op::WriteArg { .. });
            // "exclusively owned" is a fact about the handles that exist, not about the counter the crate keeps
            let sharers = pre.iter().flatten().filter(|o| o.kind == Kind::Heap && o.ptr == a.ptr).count();
            let owned = a.kind == Kind::Inline || (a.kind == Kind::Heap && sharers == 1);
            if appendish && honest && owned && ml <= a.cap {
                ctx.eval("C11.no_realloc_within_cap");
                if a.kind == Kind::Heap && ml == a.cap && ml > a.len {
                    ctx.tag("fill_exact");
                }
                if a.kind == Kind::Heap && ml > a.len {
                    ctx.tag("fill_within");
                }
                if requests != 0 || b.ptr != a.ptr {
                    f.push(Failure::new(
                        "C11.no_realloc_within_cap",
                        format!(
                            "{name} on an exclusively owned {} string (len {}, capacity {}) to len {ml}: {requests} allocator request(s), text moved: {}",
                            a.kind.name(),
                            a.len,
                            a.cap,
                            b.ptr != a.ptr
                        ),
                    ));
                }
            }
        }

        // ---- C12 growth
        if let (Some(a), Some(b), Some(add), true) = (pre_t.as_ref(), post_t, additional_of(op, r), real_ok) {
            let room = match a.kind {
                Kind::Inline => 16,
                _ => a.cap,
            };
            let need = a.len.saturating_add(add);
            if need > room && b.kind == Kind::Heap {
                let l = a.len;
                let lower = l + l / 2;
                let upper = lower.max(need);
                ctx.tag("growth_event");
                ctx.growth.push((a.kind, l, add));
                ctx.eval("C12.lower");
                if b.cap < lower {
                    f.push(Failure::new("C12.lower", format!("{name}: {} string of len {l} grew by {add} to capacity {}, below len + len/2 = {lower}", a.kind.name(), b.cap)));
                }
                ctx.eval("C12.upper");
                if b.cap > upper {
                    f.push(Failure::new(
                        "C12.upper",
                        format!("{name}: {} string of len {l} grew by {add} to capacity {}, above max(len + len/2, len + requested) = {upper}", a.kind.name(), b.cap),
                    ));
                }
            }
            // a "shared copy" (listed among the growth events): the private copy an append / insert / reserve makes of
            // a shared buffer is sized by the same rule even when the shared buffer itself had room; only the upper
            // bound is applied then (nothing was outgrown, so nothing needs amortising)
            if need <= room && a.kind == Kind::Heap && a.rc.unwrap_or(1) >= 2 && b.kind == Kind::Heap && b.ptr != a.ptr {
                let upper = (a.len + a.len / 2).max(need);
                ctx.tag("growth_event");
                ctx.growth.push((a.kind, a.len, add));
                ctx.eval("C12.upper");
                if b.cap > upper {
                    f.push(Failure::new(
                        "C12.upper",
                        format!("{name}: the private copy of a shared heap string of len {} (+{add}) got capacity {}, above max(len + len/2, len + requested) = {upper}", a.len, b.cap),
                    ));
                }
            }
        }

        // ---- C12 lower bound for operations that may grow in several steps (extend, multi-piece write!): every
        // growth step lands at >= 1.5x the length it started from, hence >= 1.5x the length before the call
        if let (Some(a), Some(b), Some(ml), true, true) = (pre_t.as_ref(), post_t, model_len_after, real_ok, matches!(op, Op::Extend { .. } | Op::Write { .. } | Op::WriteArg { .. })) {
            let room = if a.kind == Kind::Inline { 16 } else { a.cap };
            let lied = matches!(op, Op::Extend { it, .. } if it.hint.is_some());
            if !lied && ml > room && b.kind == Kind::Heap && additional_of(op, r).is_none() {
                let lower = a.len + a.len / 2;
                ctx.tag("growth_event");
                ctx.growth.push((a.kind, a.len, ml - a.len));
                ctx.eval("C12.lower");
                if b.cap < lower {
                    f.push(Failure::new("C12.lower", format!("{name}: {} string of len {} grew to len {ml} with capacity {}, below len + len/2 = {lower}", a.kind.name(), a.len, b.cap)));
                }
            }
        }

        // ---- C12 upper bound for operations that may grow in several steps: whichever step grew last started from
        // a length l <= F (the final length) and needed at most F, so the capacity is at most F + F/2 (or what an
        // iterator's claimed lower bound made the crate reserve). A collected LeanString may take over the buffer
        // of its first LeanString item (as String does), which is not growth: those are skipped.
        {
            let multi: Option<(Option<&IterSpec>, bool)> = match op {
                Op::Extend { it, .. } => Some((Some(it), false)),
                Op::Collect { it, .. } => Some((Some(it), true)),
                Op::Write { .. } | Op::WriteArg { .. } => Some((None, false)),
                _ => None,
            };
            if let (Some((it, fresh)), Some(b), Some(ml), true, None) = (multi, post_t, model_len_after, real_ok, additional_of(op, r)) {
                let start = if fresh { Some((0usize, 16usize)) } else { pre_t.as_ref().map(|a| (a.len, if a.kind == Kind::Inline { 16 } else { a.cap })) };
                let donors = fresh && it.is_some_and(|it| matches!(it.kind, IterKind::Lean | IterKind::LeanSlots));
                if let (Some((l0, room)), false) = (start, donors) {
                    if b.kind == Kind::Heap && b.cap > room {
                        let hint = it.and_then(|it| it.hint.map(|h| it.upper.map_or(h, |u| h.min(u)))).unwrap_or(0);
                        let upper = (ml + ml / 2).max(l0.saturating_add(hint));
                        ctx.eval("C12.upper");
                        if b.cap > upper {
                            f.push(Failure::new(
                                "C12.upper",
                                format!("{name}: a string of len {l0} (room for {room}) ended with len {ml} and capacity {}, above max(len + len/2, what the size hint announced) = {upper}", b.cap),
                            ));
                        }
                    }
                }
            }
        }

        // ---- C13 shrinking
        // ("afterwards ... no larger than before, never below len, never below m unless it already was" also holds
        // after a shrink that failed; the exact landing size is what a successful call promises)
        let shrink_done = real_ok || matches!(real, Outcome::ReserveErr | Outcome::Panic(PanicKind::Reserve, _));
        if let (true, Some(a), Some(b), true) = (matches!(op, Op::ShrinkTo { .. } | Op::ShrinkToFit { .. }), pre_t.as_ref(), post_t, shrink_done) {
            let m = if matches!(op, Op::ShrinkToFit { .. }) { 0 } else { r.size };
            let target = a.len.max(m);
            ctx.eval("C13.no_grow");
            if b.cap > a.cap.max(16) {
                f.push(Failure::new("C13.no_grow", format!("{name}({m}) on {} len {} capacity {}: capacity grew to {}", a.state_name(), a.len, a.cap, b.cap)));
            }
            ctx.eval("C13.ge_min");
            if b.cap < m.min(a.cap) || b.cap < a.len {
                f.push(Failure::new("C13.ge_min", format!("{name}({m}) on len {} capacity {}: capacity fell to {}", a.len, a.cap, b.cap)));
            }
            if a.kind == Kind::Heap && a.cap > target && real_ok {
                ctx.tag("shrink_nontrivial");
                if a.rc.unwrap_or(1) >= 2 {
                    ctx.tag("shrink_shared");
                }
                ctx.class(format!("shrink.{}.{}", a.state_name(), if target > 16 { "heap" } else { "to_inline" }));
                ctx.eval("C13.exact");
                let ok = if target > 16 { b.kind == Kind::Heap && b.cap == target } else { b.kind == Kind::Inline && b.cap == 16 };
                if !ok {
                    f.push(Failure::new(
                        "C13.exact",
                        format!(
                            "{name}({m}) on {} len {} capacity {}: capacity after = {} ({}), expected {}",
                            a.state_name(),
                            a.len,
                            a.cap,
                            b.cap,
                            b.kind.name(),
                            if target > 16 { target.to_string() } else { "inline storage".into() }
                        ),
                    ));
                }
            }
        }

        // ---- a refused allocator request is reported (Err or the documented panic), not swallowed: a reserve / shrink /
        // with_capacity that returns normally although a request was refused AND whose promise is not met. (A refused
        // request that was optional, or that was made good by a retry, is nobody's business: the up-front reservation
        // of extend is a hint, a conversion may try to trim its result, reserve may fall back to the exact size.)
        {
            let fr = events.iter().filter(|e| matches!(e.kind, EvKind::FaultAlloc | EvKind::FaultRealloc)).count();
            let gr = events.iter().filter(|e| matches!(e.kind, EvKind::GiantAlloc | EvKind::GiantRealloc)).count();
            if real_ok && fr + gr > 0 {
                let tgt: Option<&Obs> = post[op.first_target() as usize % SLOTS].as_ref();
                let unmet = match (op, pre_t.as_ref(), tgt) {
                    (Op::Reserve { .. }, Some(a), Some(b)) => a.len.saturating_add(r.size) > b.cap,
                    (Op::WithCapacity { .. }, _, Some(b)) => b.cap < r.size,
                    (Op::ShrinkTo { .. } | Op::ShrinkToFit { .. }, Some(a), Some(b)) => {
                        let m = if matches!(op, Op::ShrinkToFit { .. }) { 0 } else { r.size };
                        let target = a.len.max(m);
                        a.kind == Kind::Heap && a.cap > target && !(if target > 16 { b.kind == Kind::Heap && b.cap == target } else { b.kind == Kind::Inline })
                    }
                    _ => false,
                };
                if unmet {
                    let clause = if fr > 0 { "C05.refusal_unreported" } else { "C06.refusal_unreported" };
                    ctx.eval(clause);
                    f.push(Failure::new(clause, format!("{name}: the allocator refused {} request(s) during the call, yet it returned normally without what it promises", fr + gr)));
                }
            }
        }

        // ---- C06 tags
        if let Op::Reserve { .. } | Op::ShrinkTo { .. } = op {
            if r.size >= 1 << 20 && pre_t.as_ref().is_some_and(|p| p.kind != Kind::Inline) {
                ctx.tag("giant_nontrivial");
            }
        }
        if let Op::PushStr { .. } | Op::InsertStr { .. } = op {
            if r.text.len() >= 1 << 20 && pre_t.as_ref().is_some_and(|p| p.kind != Kind::Inline) {
                ctx.tag("giant_nontrivial");
            }
        }
        if let Op::Extend { it, .. } | Op::Collect { it, .. } = op {
            if it.hint.is_some_and(|h| h >= 1 << 20) {
                ctx.tag("giant_nontrivial");
            }
        }

        // ---- C07: index strictly inside a character
        if let Op::Remove { .. } | Op::Insert { .. } | Op::InsertStr { .. } | Op::Truncate { .. } = op {
            if let Some(m) = pre_model_t {
                if r.idx < m.len() && !m.is_char_boundary(r.idx) {
                    ctx.tag("index_inside_char");
                }
            }
        }

        // ---- C17 readers
        if let Op::Compare { a, b } = op {
            self.compare_clauses(*a, *b, post, ctx, f);
        }
    }

    pub fn compare_clauses(&self, a: Slot, b: Slot, post: &[Option<Obs>; SLOTS], ctx: &mut Ctx, f: &mut Vec<Failure>) {
        use std::borrow::Cow;
        let (Some(x), Some(y)) = (self.slots[a as usize].as_ref(), self.slots[b as usize].as_ref()) else { return };
        let (Some(mx), Some(my)) = (self.model[a as usize].as_ref(), self.model[b as usize].as_ref()) else { return };
        ctx.eval("C17.eq");
        if let (Some(oa), Some(ob)) = (&post[a as usize], &post[b as usize]) {
            if a != b && mx == my && (oa.kind != ob.kind || oa.cap != ob.cap || oa.rc != ob.rc) {
                ctx.tag("c17_same_text_diff_storage");
                ctx.class(format!("c17.same.{}.{}", oa.state_name(), ob.state_name()));
            }
            if mx != my {
                let common = mx.bytes().zip(my.bytes()).take_while(|(p, q)| p == q).count();
                if common >= 15 {
                    ctx.tag("c17_diff_late");
                }
            }
        }
        let mut bad = |clause: &str, d: String| f.push(Failure::new(clause, d));
        if (x == y) != (mx == my) || (y == x) != (mx == my) {
            bad("C17.eq", format!("{mx:?} == {my:?}: LeanString says {}, str says {}", x == y, mx == my));
        }
        if x.cmp(y) != mx.as_str().cmp(my.as_str()) || x.partial_cmp(y) != mx.as_str().partial_cmp(my.as_str()) {
            bad("C17.ord", format!("cmp({mx:?}, {my:?}): LeanString {:?}, str {:?}", x.cmp(y), mx.cmp(my)));
        }
        // comparison operators
        let ops_l = [x < y, x <= y, x > y, x >= y, x != y];
        let ops_s = [mx < my, mx <= my, mx > my, mx >= my, mx != my];
        if ops_l != ops_s {
            bad("C17.ord", format!("operators <, <=, >, >=, != on {mx:?} and {my:?}: LeanString {ops_l:?}, str {ops_s:?}"));
        }
        // a str argument that aliases the string's own text (prefixes and suffixes of as_str())
        {
            let own = x.as_str();
            let bs = crate::world::boundaries(mx.as_str());
            for &k in [bs[0], bs[bs.len() / 2], bs[bs.len().saturating_sub(2).min(bs.len() - 1)], bs[bs.len() - 1]].iter() {
                let (pre, suf) = (&own[..k], &own[k..]);
                let want_pre = mx[..k] == *mx.as_str();
                let want_suf = mx[k..] == *mx.as_str();
                let got = [*x == *pre, *pre == *x, *x == pre, pre == *x, *x == *suf, *suf == *x];
                if got != [want_pre, want_pre, want_pre, want_pre, want_suf, want_suf] {
                    bad("C17.eq_foreign", format!("{mx:?} compared with the prefix/suffix of its own text at {k}: {got:?}"));
                }
                if x.as_str().cmp(pre) != mx.as_str().cmp(&mx[..k]) {
                    bad("C17.ord", format!("{mx:?} ordered against its own prefix of {k} bytes"));
                }
            }
        }
        if hash_str_of(x) != hash_str(mx) || fnv_hash(x) != fnv_hash(mx.as_str()) || word_hash(x) != word_hash(mx.as_str()) {
            bad("C17.hash", format!("hash of {mx:?} differs from the hash of the same str (SipHash, FNV, or a word-at-a-time hasher)"));
        }
        // hashing as an element of a slice / Vec / tuple (Hash::hash_slice), with an empty element in the middle
        {
            let empty = lean_string::LeanString::new();
            let ls = [x.clone(), empty, y.clone()];
            let ss = [mx.as_str(), "", my.as_str()];
            let vl: Vec<lean_string::LeanString> = ls.to_vec();
            let vs: Vec<String> = ss.iter().map(|s| s.to_string()).collect();
            if fnv_hash(&ls[..]) != fnv_hash(&ss[..]) || word_hash(&ls[..]) != word_hash(&ss[..]) || fnv_hash(&vl) != fnv_hash(&vs) || fnv_hash(&(x, y)) != fnv_hash(&(mx.as_str(), my.as_str())) {
                bad("C17.hash", format!("hash of the slice / Vec / tuple [{mx:?}, \"\", {my:?}] differs from the hash of the same strs"));
            }
        }
        let fx: [String; 12] = [
            format!("{x}"),
            format!("{x:?}"),
            format!("{x:>20}"),
            format!("{x:<7}|"),
            format!("{x:^9}|"),
            format!("{x:*^31}"),
            format!("{x:.3}"),
            format!("{x:10.2}|"),
            format!("{x:#?}"),
            format!("{x:>12?}"),
            format!("{:w$.p$}", x, w = my.len() % 23, p = mx.len() % 5),
            format!("{x:-<18.17}"),
        ];
        let ms = mx.as_str();
        let fs: [String; 12] = [
            format!("{ms}"),
            format!("{ms:?}"),
            format!("{ms:>20}"),
            format!("{ms:<7}|"),
            format!("{ms:^9}|"),
            format!("{ms:*^31}"),
            format!("{ms:.3}"),
            format!("{ms:10.2}|"),
            format!("{ms:#?}"),
            format!("{ms:>12?}"),
            format!("{:w$.p$}", ms, w = my.len() % 23, p = mx.len() % 5),
            format!("{ms:-<18.17}"),
        ];
        if let Some(i) = (0..12).find(|i| fx[*i] != fs[*i]) {
            bad("C17.fmt", format!("Display/Debug of {mx:?} differ from str's (format #{i}: {:?} vs {:?})", fx[i], fs[i]));
        }
        let sy: &str = my.as_str();
        let cow: Cow<str> = Cow::Borrowed(sy);
        let want = mx == my;
        let got = [
            *x == *sy,
            *sy == *x,
            *x == sy,
            sy == *x,
            *x == *my,
            *my == *x,
            *x == cow,
            cow == *x,
        ];
        if got.iter().any(|g| *g != want) {
            bad("C17.eq_foreign", format!("{mx:?} vs {my:?} as str/&str/String/Cow: {got:?}, expected all {want}"));
        }
        // lookups by &str (Borrow<str>), AsRef, Deref
        let mut hm: HashMap<lean_string::LeanString, u8> = HashMap::new();
        hm.insert(x.clone(), 1);
        let mut bm: std::collections::BTreeMap<lean_string::LeanString, u8> = std::collections::BTreeMap::new();
        bm.insert(x.clone(), 1);
        let found = (hm.get(sy).is_some(), bm.get(sy).is_some(), hm.contains_key(mx.as_str()), bm.contains_key(mx.as_str()));
        if found != (want, want, true, true) {
            bad("C17.lookup", format!("map keyed by {mx:?}: lookups by &str {my:?} / own text gave {found:?}, expected ({want}, {want}, true, true)"));
        }
        let r1: &str = x.as_ref();
        let r2: &[u8] = x.as_ref();
        #[cfg(feature = "ls-std")]
        {
            let r3: &std::ffi::OsStr = x.as_ref();
            if r3 != std::ffi::OsStr::new(mx.as_str()) {
                bad("C17.as_ref", format!("AsRef<OsStr> view of {mx:?} differs from the text"));
            }
        }
        let r4: &str = x;
        let r5: &str = std::borrow::Borrow::borrow(x);
        if r1 != mx.as_str() || r2 != mx.as_bytes() || r4 != mx.as_str() || r5 != mx.as_str() {
            bad("C17.as_ref", format!("AsRef/Deref/Borrow views of {mx:?} differ from the text"));
        }
        let back: String = String::from(x);
        let back2: String = String::from(x.clone());
        if back != *mx || back2 != *mx {
            bad("C17.as_ref", format!("String::from(&LeanString) / String::from(LeanString) of {mx:?} gave {back:?} / {back2:?}"));
        }
        // Extend<LeanString> for String
        let mut ext = String::from("<");
        ext.extend([x.clone(), y.clone()]);
        if ext != format!("<{mx}{my}") {
            for c in ["C17.as_ref", "C01.extend_string"] {
                bad(c, format!("String::extend([{mx:?}, {my:?}]) gave {ext:?}"));
            }
        }
        let _ = fnv(b"");
    }
}

fn hash_str_of(x: &lean_string::LeanString) -> u64 {
    let mut h = std::collections::hash_map::DefaultHasher::new();
    x.hash(&mut h);
    h.finish()
}
