//! proptest generators for histories (construction, not rejection).

use crate::ir::*;
use proptest::collection::vec;
use proptest::prelude::*;
use proptest::sample::select;
use proptest::strategy::Union;

pub const ALPHA: &[char] = &[
    'a', 'b', 'z', '0', ' ', '\0', '\x7f', 'é', '\u{80}', '\u{7ff}', '€', '\u{800}', '\u{fffd}', '\u{ffff}', '𝄞',
    '\u{10000}', '\u{10ffff}', 'c', 'd', 'e', 'Q', 'я', 'Ж', '\u{3ff}', '\u{400}', 'ÿ', '\u{100}', '\u{300}', 'x', 'y', '1',
];

/// Text of exactly `len` bytes built from the alphabet by cycling through `sel`.
pub fn build_text(len: usize, sel: &[u8], rev: bool) -> String {
    let mut s = String::with_capacity(len);
    let mut chars: Vec<char> = Vec::new();
    let mut used = 0;
    let mut i = 0;
    while used < len {
        let c = if sel.is_empty() { 'a' } else { ALPHA[sel[i % sel.len()] as usize % ALPHA.len()] };
        i += 1;
        let c = if used + c.len_utf8() <= len { c } else { '~' };
        used += c.len_utf8();
        chars.push(c);
    }
    if rev {
        chars.reverse();
    }
    s.extend(chars);
    s
}

#[derive(Clone, Debug)]
pub struct Profile {
    pub min_ops: usize,
    pub max_ops: usize,
    pub slots: u8,
    pub w_ctor: u32,
    pub w_static: u32,
    pub w_clone: u32,
    pub w_drop: u32,
    pub w_handle: u32,
    pub w_append: u32,
    pub w_trunc: u32,
    pub w_index: u32,
    pub w_retain: u32,
    pub w_reserve: u32,
    pub w_shrink: u32,
    pub w_extend: u32,
    pub w_convert: u32,
    pub w_compare: u32,
    pub giant_sizes: bool,
    pub lying_hints: bool,
    pub callback_panics: bool,
    pub max_text: usize,
    pub fill_bias: bool,
    /// occasionally append very large texts (up to 1 MiB)
    pub huge_texts: bool,
    /// sizes that must be rejected before any allocation (above 2^56, near isize::MAX / usize::MAX)
    pub overflow_sizes: bool,
    /// callbacks that drop or clone another handle while the operation runs
    pub callback_fx: bool,
    /// another thread dropping / cloning another handle in the middle of an operation (at a hook event)
    pub intrusions: bool,
}

impl Profile {
    pub fn base() -> Self {
        Profile {
            min_ops: 1,
            max_ops: 40,
            slots: SLOTS as u8,
            w_ctor: 10,
            w_static: 4,
            w_clone: 12,
            w_drop: 6,
            w_handle: 4,
            w_append: 16,
            w_trunc: 10,
            w_index: 10,
            w_retain: 3,
            w_reserve: 5,
            w_shrink: 4,
            w_extend: 5,
            w_convert: 4,
            w_compare: 2,
            giant_sizes: false,
            lying_hints: false,
            callback_panics: false,
            max_text: 300,
            fill_bias: false,
            huge_texts: false,
            overflow_sizes: false,
            callback_fx: false,
            intrusions: false,
        }
    }
    pub fn sharing() -> Self {
        Profile { slots: 4, w_clone: 30, w_drop: 10, w_trunc: 16, w_retain: 6, w_extend: 8, callback_fx: true, intrusions: true, ..Self::base() }
    }
    pub fn statics() -> Self {
        Profile { slots: 4, w_static: 25, w_ctor: 3, w_clone: 14, w_trunc: 18, ..Self::base() }
    }
    pub fn capacity() -> Self {
        Profile { slots: 3, w_reserve: 18, w_append: 26, w_shrink: 8, w_clone: 6, fill_bias: true, ..Self::base() }
    }
    pub fn shrink() -> Self {
        Profile { slots: 3, w_shrink: 30, w_reserve: 14, w_clone: 14, w_trunc: 10, giant_sizes: true, ..Self::base() }
    }
    pub fn sizes() -> Self {
        Profile { slots: 3, w_reserve: 25, w_shrink: 8, w_extend: 14, w_clone: 14, giant_sizes: true, lying_hints: true, max_ops: 20, ..Self::base() }
    }
    pub fn faults() -> Self {
        Profile { min_ops: 3, max_ops: 14, slots: 3, w_clone: 16, w_extend: 8, max_text: 120, ..Self::base() }
    }
    pub fn panics() -> Self {
        Profile { min_ops: 2, max_ops: 12, slots: 3, w_clone: 14, w_retain: 18, w_extend: 22, w_convert: 10, callback_panics: true, callback_fx: true, max_text: 80, ..Self::base() }
    }
    pub fn index() -> Self {
        Profile { slots: 3, w_index: 40, w_clone: 14, w_trunc: 14, max_text: 64, ..Self::base() }
    }
    pub fn inline_edits() -> Self {
        Profile { slots: 2, w_ctor: 14, w_static: 0, w_clone: 2, w_reserve: 0, w_shrink: 0, w_extend: 0, w_convert: 6, max_text: 16, ..Self::base() }
    }
}

pub fn len_strategy(max: usize) -> BoxedStrategy<usize> {
    let mut v: Vec<(u32, BoxedStrategy<usize>)> = vec![
        (30, (0usize..=15.min(max)).boxed()),
        (6, select(vec![0usize, 1, 7, 8, 15.min(max)]).boxed()),
    ];
    if max >= 16 {
        v.push((10, Just(16usize).boxed()));
    }
    if max >= 33 {
        v.push((28, (17usize..=33).boxed()));
        v.push((6, select(vec![17usize, 23, 24, 25, 31, 32, 33]).boxed()));
    }
    if max >= 100 {
        v.push((12, (34usize..=100).boxed()));
    }
    if max >= 300 {
        v.push((5, (101usize..=300).boxed()));
    }
    if max > 300 {
        v.push((2, (301usize..=max).boxed()));
    }
    Union::new_weighted(v).boxed()
}

pub fn text_strategy(max: usize) -> BoxedStrategy<String> {
    (len_strategy(max), vec(any::<u8>(), 0..=6), any::<bool>())
        .prop_map(|(len, sel, rev)| build_text(len, &sel, rev))
        .boxed()
}

pub fn char_strategy() -> BoxedStrategy<char> {
    select(ALPHA.to_vec()).boxed()
}

pub fn size_grid() -> Vec<usize> {
    let mut v: Vec<usize> = vec![0, 1, 2];
    for k in 0..64u32 {
        for d in -2i64..=2 {
            let base = 1u128 << k;
            let x = base as i128 + d as i128;
            if x >= 0 && x <= usize::MAX as i128 {
                v.push(x as usize);
            }
        }
    }
    for d in 0..=2usize {
        v.push((1usize << 56) - d);
        v.push((1usize << 56) + d);
        v.push(isize::MAX as usize - d);
        v.push(isize::MAX as usize + d);
        v.push(usize::MAX - d);
    }
    v.sort_unstable();
    v.dedup();
    v
}

pub fn idx_strategy() -> BoxedStrategy<Idx> {
    prop_oneof![
        5 => any::<u16>().prop_map(Idx::Boundary),
        3 => (0usize..=40).prop_map(Idx::Raw),
        3 => (-3i8..=2).prop_map(Idx::LenPlus),
        1 => select(vec![usize::MAX, usize::MAX - 1, 1 << 56, isize::MAX as usize, 1 << 32]).prop_map(Idx::Raw),
    ]
    .boxed()
}

pub fn size_strategy(p: &Profile) -> BoxedStrategy<Size> {
    let mut v: Vec<(u32, BoxedStrategy<Size>)> = vec![
        (4, (0usize..=64).prop_map(Size::Abs).boxed()),
        (2, select(vec![15usize, 16, 17, 23, 24, 25, 31, 32, 33, 48, 100, 255, 256, 1000, 4096]).prop_map(Size::Abs).boxed()),
        (2, (-2i16..=2).prop_map(Size::CapPlus).boxed()),
        (2, (-2i16..=2).prop_map(Size::LenPlus).boxed()),
        (2, (-2i16..=2).prop_map(Size::RoomPlus).boxed()),
    ];
    if p.giant_sizes {
        v.push((4, select(size_grid()).prop_map(Size::Abs).boxed()));
        v.push((1, (0u8..=2).prop_map(Size::MaxMinusLenMinus).boxed()));
    }
    if p.overflow_sizes {
        let big: Vec<usize> = (0..=2usize)
            .flat_map(|d| [usize::MAX - d, (1usize << 56) + d, isize::MAX as usize - d, isize::MAX as usize + 1 + d, (1usize << 60) + d])
            .collect();
        v.push((3, select(big).prop_map(Size::Abs).boxed()));
        v.push((2, (0u8..=2).prop_map(Size::MaxMinusLenMinus).boxed()));
    }
    Union::new_weighted(v).boxed()
}

pub fn text_arg_strategy(p: &Profile) -> BoxedStrategy<Text> {
    let fill = if p.fill_bias { 6 } else { 1 };
    let mut v: Vec<(u32, BoxedStrategy<Text>)> = vec![
        (16, text_strategy(p.max_text).prop_map(Text::Lit).boxed()),
        (2 * fill, (-2i16..=2).prop_map(|d| Text::Fill { delta: d, unit: 'x' }).boxed()),
    ];
    if p.huge_texts {
        v.push((1, prop_oneof![1000usize..=70_000, 70_000usize..=1_100_000].prop_map(|n| Text::Repeat { n, unit: 'h' }).boxed()));
    }
    Union::new_weighted(v).boxed()
}

pub fn fx_strategy(p: &Profile) -> BoxedStrategy<Option<Fx>> {
    if p.callback_fx {
        let n = p.slots;
        prop_oneof![3 => Just(None), 2 => (0u16..=6, 0u8..n, any::<bool>()).prop_map(|(at, slot, drop)| Some(Fx { at, slot, drop }))].boxed()
    } else {
        Just(None).boxed()
    }
}

pub fn iter_strategy(p: &Profile) -> BoxedStrategy<IterSpec> {
    let kinds = vec![
        IterKind::Char,
        IterKind::Char,
        IterKind::RefChar,
        IterKind::Str,
        IterKind::String,
        IterKind::BoxStr,
        IterKind::CowB,
        IterKind::CowO,
        IterKind::Lean,
        IterKind::LeanSlots,
    ];
    let hint: BoxedStrategy<Option<usize>> = if p.lying_hints {
        prop_oneof![
            5 => Just(None),
            2 => (0usize..=64).prop_map(Some),
            4 => select(size_grid()).prop_map(Some),
        ]
        .boxed()
    } else if p.overflow_sizes {
        // lower bounds that no configuration can reserve (rejected before any allocation), and small honest-looking ones
        let big: Vec<usize> = (0..=2usize).flat_map(|d| [usize::MAX - d, usize::MAX - 16 - d, (1usize << 56) + d, isize::MAX as usize - d, isize::MAX as usize + 1 + d]).collect();
        prop_oneof![
            5 => Just(None),
            3 => select(big).prop_map(Some),
            1 => (0usize..=20).prop_map(Some),
        ]
        .boxed()
    } else {
        Just(None).boxed()
    };
    let panic_at: BoxedStrategy<Option<u16>> = if p.callback_panics {
        prop_oneof![2 => Just(None), 5 => (0u16..=8).prop_map(Some)].boxed()
    } else {
        Just(None).boxed()
    };
    let slots = p.slots;
    let loose = prop_oneof![4 => Just(None), 1 => select(vec![Some(1u16), Some(7), Some(40), Some(1000)])];
    // empty items: they count for size hints but add no bytes
    let empties = prop_oneof![8 => Just(0usize), 2 => 1usize..=6, 1 => select(vec![17usize, 40, 100, 300])];
    let items = (vec(text_strategy(p.max_text.min(40)), 0..=5), empties).prop_map(|(mut items, e)| {
        for i in 0..e {
            if i % 2 == 0 { items.insert(0, String::new()) } else { items.push(String::new()) }
        }
        items
    });
    // an upper bound that is too small (String ignores upper bounds altogether)
    let upper: BoxedStrategy<Option<usize>> =
        if p.lying_hints { prop_oneof![8 => Just(None), 2 => Just(Some(0usize)), 2 => (0usize..=3).prop_map(Some)].boxed() } else { Just(None).boxed() };
    (select(kinds), items, vec(0u8..slots, 0..=3), hint, panic_at, loose, fx_strategy(p), upper)
        .prop_map(|(kind, items, slots, hint, panic_at, loose, fx, upper)| {
            let loose = if hint.is_some() { None } else { loose };
            let slots = if kind == IterKind::LeanSlots { slots } else { vec![] };
            let items = if kind == IterKind::LeanSlots { vec![] } else { items };
            IterSpec { kind, items, slots, hint, panic_at, loose, fx, upper }
        })
        .boxed()
}

pub fn pieces_strategy(p: &Profile) -> BoxedStrategy<Pieces> {
    let opt = |on: bool| -> BoxedStrategy<Option<u16>> {
        if on { prop_oneof![3 => Just(None), 2 => (0u16..=4).prop_map(Some)].boxed() } else { Just(None).boxed() }
    };
    (vec(text_strategy(p.max_text.min(40)), 0..=4), opt(true), opt(p.callback_panics), fx_strategy(p))
        .prop_map(|(pieces, err_at, panic_at, fx)| {
            // a panic position hides a later error position and vice versa: keep at most one, the earlier
            let (err_at, panic_at) = match (err_at, panic_at) {
                (Some(e), Some(q)) if e <= q => (Some(e), None),
                (Some(_), Some(q)) => (None, Some(q)),
                x => x,
            };
            Pieces { pieces, err_at, panic_at, fx }
        })
        .boxed()
}

fn int_strategy() -> BoxedStrategy<(IntTy, bool, String)> {
    let tys = vec![
        IntTy::I8,
        IntTy::U8,
        IntTy::I16,
        IntTy::U16,
        IntTy::I32,
        IntTy::U32,
        IntTy::I64,
        IntTy::U64,
        IntTy::I128,
        IntTy::U128,
        IntTy::Isize,
        IntTy::Usize,
    ];
    let val = prop_oneof![
        3 => any::<i64>().prop_map(|v| v.to_string()),
        2 => (-1000i64..=1000).prop_map(|v| v.to_string()),
        2 => (0u32..=38, -3i128..=3, any::<bool>()).prop_map(|(k, d, neg)| {
            let v = 10i128.pow(k).saturating_add(d);
            (if neg { -v } else { v }).to_string()
        }),
        1 => any::<i128>().prop_map(|v| v.to_string()),
        1 => any::<u128>().prop_map(|v| v.to_string()),
        // extremes of every width (the executor casts the value to the operation's type)
        2 => (select(vec![7u32, 8, 15, 16, 31, 32, 63, 64, 127]), -3i128..=3, any::<bool>()).prop_map(|(k, d, neg)| {
            let v = (1i128 << k).wrapping_add(d);
            (if neg { v.wrapping_neg() } else { v }).to_string()
        }),
        1 => select(vec![i128::MIN.to_string(), i128::MAX.to_string(), u128::MAX.to_string(), i64::MIN.to_string(), u64::MAX.to_string()]),
    ];
    (select(tys), any::<bool>(), val).boxed()
}

pub fn op_strategy(p: &Profile) -> BoxedStrategy<Op> {
    let n = p.slots;
    let slot = move || 0u8..n;
    let text = || text_strategy(p.max_text);
    let vias = vec![
        Via::Str,
        Via::Str,
        Via::String,
        Via::RefString,
        Via::BoxStr,
        Via::CowB,
        Via::CowO,
        Via::Parse,
        Via::Utf8,
        Via::Utf8Unchecked,
        Via::ToLeanString,
        Via::ToLeanStr,
        Via::ToLeanCow,
        Via::ToLeanBox,
        Via::TryToLeanString,
    ];
    let ctor = prop_oneof![
        1 => slot().prop_map(|slot| Op::New { slot }),
        1 => slot().prop_map(|slot| Op::Default { slot }),
        12 => (slot(), select(vias), text()).prop_map(|(slot, via, text)| Op::FromText { slot, via, text }),
        2 => (slot(), char_strategy(), select(vec![CharVia::From, CharVia::ToLean, CharVia::TryToLean]))
            .prop_map(|(slot, ch, via)| Op::FromChar { slot, ch, via }),
        3 => (slot(), size_strategy(p), any::<bool>()).prop_map(|(slot, n, try_)| Op::WithCapacity { slot, n, try_ }),
    ]
    .boxed();
    let convert = prop_oneof![
        1 => (slot(), any::<bool>(), any::<bool>()).prop_map(|(slot, v, try_)| Op::FromBool { slot, v, try_ }),
        4 => (slot(), int_strategy(), any::<bool>())
            .prop_map(|(slot, (ty, nonzero, v), try_)| Op::FromInt { slot, ty, nonzero, v, try_ }),
        2 => (slot(), vec(select(vec![0x41u8, 0x80, 0xbf, 0xc2, 0xe0, 0xed, 0xf0, 0xf4, 0xff, 0x7f, 0xa0, 0x9f]), 0..=24))
            .prop_map(|(slot, b)| Op::FromUtf8Lossy { slot, hex: hex_encode(&b) }),
        2 => (slot(), vec(select(vec![0x41u16, 0xe9, 0x7ff, 0x800, 0xd7ff, 0xd800, 0xdbff, 0xdc00, 0xdfff, 0xe000, 0xfffd]), 0..=20), any::<bool>())
            .prop_map(|(slot, units, lossy)| Op::FromUtf16 { slot, units, lossy }),
        // longer, mostly valid UTF-16: runs of ASCII and Latin-1 units (block-wise fast paths), the odd wide unit
        1 => (slot(), vec(select(vec![0x41u16, 0x61, 0x7a, 0x20, 0xe9, 0xfc, 0x80, 0xff, 0x7f, 0x100, 0x20ac, 0xd83d, 0xde00]), 0..=40), any::<bool>())
            .prop_map(|(slot, units, lossy)| Op::FromUtf16 { slot, units, lossy }),
        3 => (slot(), iter_strategy(p)).prop_map(|(slot, it)| Op::Collect { slot, it }),
        3 => (slot(), pieces_strategy(p), any::<bool>()).prop_map(|(slot, d, try_)| Op::Display { slot, d, try_ }),
    ]
    .boxed();
    let stat = (slot(), any::<u16>()).prop_map(|(slot, k)| Op::FromStatic { slot, k }).boxed();
    let clone = prop_oneof![
        8 => (slot(), slot(), select(vec![CloneVia::Clone, CloneVia::Clone, CloneVia::FromRef, CloneVia::ToLean, CloneVia::TryToLean]))
            .prop_map(|(slot, from, via)| Op::Clone { slot, from, via }),
        3 => (slot(), slot()).prop_map(|(slot, from)| Op::CloneFrom { slot, from }),
    ]
    .boxed();
    let drop = slot().prop_map(|slot| Op::Drop { slot }).boxed();
    let handle = prop_oneof![
        2 => (slot(), slot()).prop_map(|(slot, from)| Op::Take { slot, from }),
        2 => (slot(), slot()).prop_map(|(a, b)| Op::Swap { a, b }),
        3 => slot().prop_map(|slot| Op::OptionRoundTrip { slot }),
    ]
    .boxed();
    let append = prop_oneof![
        6 => (slot(), char_strategy(), any::<bool>()).prop_map(|(slot, ch, try_)| Op::Push { slot, ch, try_ }),
        6 => (slot(), text_arg_strategy(p), any::<bool>()).prop_map(|(slot, text, try_)| Op::PushStr { slot, text, try_ }),
        1 => (slot(), text_arg_strategy(p)).prop_map(|(slot, text)| Op::AddAssign { slot, text }),
        1 => (slot(), text_arg_strategy(p)).prop_map(|(slot, text)| Op::Add { slot, text }),
        2 => (slot(), pieces_strategy(p)).prop_map(|(slot, d)| Op::Write { slot, d }),
        1 => (slot(), slot(), 0u8..10).prop_map(|(slot, from, spec)| Op::WriteArg { slot, from, spec }),
    ]
    .boxed();
    let trunc = prop_oneof![
        4 => (slot(), any::<bool>()).prop_map(|(slot, try_)| Op::Pop { slot, try_ }),
        4 => (slot(), idx_strategy(), any::<bool>()).prop_map(|(slot, n, try_)| Op::Truncate { slot, n, try_ }),
        1 => slot().prop_map(|slot| Op::Clear { slot }),
    ]
    .boxed();
    let index = prop_oneof![
        3 => (slot(), idx_strategy(), any::<bool>()).prop_map(|(slot, idx, try_)| Op::Remove { slot, idx, try_ }),
        3 => (slot(), idx_strategy(), char_strategy(), any::<bool>())
            .prop_map(|(slot, idx, ch, try_)| Op::Insert { slot, idx, ch, try_ }),
        3 => (slot(), idx_strategy(), text_arg_strategy(p), any::<bool>())
            .prop_map(|(slot, idx, text, try_)| Op::InsertStr { slot, idx, text, try_ }),
    ]
    .boxed();
    let panic_at: BoxedStrategy<Option<u16>> = if p.callback_panics {
        prop_oneof![2 => Just(None), 5 => (0u16..=20).prop_map(Some)].boxed()
    } else {
        Just(None).boxed()
    };
    let retain = (slot(), any::<u64>(), panic_at, any::<bool>(), fx_strategy(p))
        .prop_map(|(slot, mask, panic_at, try_, fx)| Op::Retain { slot, r: RetainSpec { mask, panic_at, fx }, try_ })
        .boxed();
    let reserve = (slot(), size_strategy(p), any::<bool>()).prop_map(|(slot, n, try_)| Op::Reserve { slot, n, try_ }).boxed();
    let shrink = prop_oneof![
        2 => (slot(), size_strategy(p), any::<bool>()).prop_map(|(slot, n, try_)| Op::ShrinkTo { slot, n, try_ }),
        1 => (slot(), any::<bool>()).prop_map(|(slot, try_)| Op::ShrinkToFit { slot, try_ }),
    ]
    .boxed();
    let extend = (slot(), iter_strategy(p)).prop_map(|(slot, it)| Op::Extend { slot, it }).boxed();
    let compare = (slot(), slot()).prop_map(|(a, b)| Op::Compare { a, b }).boxed();

    let all: Vec<(u32, BoxedStrategy<Op>)> = vec![
        (p.w_ctor, ctor),
        (p.w_convert, convert),
        (p.w_static, stat),
        (p.w_clone, clone),
        (p.w_drop, drop),
        (p.w_handle, handle),
        (p.w_append, append),
        (p.w_trunc, trunc),
        (p.w_index, index),
        (p.w_retain, retain),
        (p.w_reserve, reserve),
        (p.w_shrink, shrink),
        (p.w_extend, extend),
        (p.w_compare, compare),
    ];
    Union::new_weighted(all.into_iter().filter(|(w, _)| *w > 0).collect()).boxed()
}

pub fn history_strategy(p: &Profile) -> BoxedStrategy<History> {
    if !p.intrusions {
        return vec(op_strategy(p), p.min_ops..=p.max_ops).prop_map(|ops| History { ops, plan: Plan::default() }).boxed();
    }
    // half of the histories: another thread drops (3 of 4) or clones another handle at one of the first hook
    // events of one operation
    let slots = p.slots;
    let intr = prop_oneof![
        1 => Just(None),
        1 => (any::<u16>(), 0u16..=9, 0u8..slots, 0u8..4).prop_map(|(step, at, slot, d)| Some((step, at, slot, d != 0))),
    ];
    (vec(op_strategy(p), p.min_ops..=p.max_ops), intr)
        .prop_map(|(ops, intr)| {
            let intrude = intr.map(|(step, at, slot, drop)| Intrude { step: ((step as usize * ops.len().max(1)) >> 16) as u16, at, slot, drop });
            History { ops, plan: Plan { faults: Vec::new(), intrude } }
        })
        .boxed()
}

// ------------------------------------------------------------------------------------------------
// Byte decoder for the coverage-guided fuzz target: bytes -> Unstructured -> the same IR.

pub mod bytes {
    use super::*;
    use arbitrary::Unstructured;

    fn text(u: &mut Unstructured, max: usize) -> String {
        let len = match u.int_in_range(0u8..=9).unwrap_or(0) {
            0..=3 => u.int_in_range(0..=15usize).unwrap_or(0),
            4 => 16,
            5..=7 => u.int_in_range(17..=33usize).unwrap_or(17),
            8 => u.int_in_range(34..=100usize).unwrap_or(34),
            _ => u.int_in_range(0..=max).unwrap_or(0),
        }
        .min(max);
        let nsel = u.int_in_range(0..=4usize).unwrap_or(0);
        let sel: Vec<u8> = (0..nsel).map(|_| u.arbitrary::<u8>().unwrap_or(0)).collect();
        build_text(len, &sel, u.arbitrary().unwrap_or(false))
    }

    fn ch(u: &mut Unstructured) -> char {
        ALPHA[u.int_in_range(0..=ALPHA.len() - 1).unwrap_or(0)]
    }

    fn idx(u: &mut Unstructured) -> Idx {
        match u.int_in_range(0u8..=9).unwrap_or(0) {
            0..=4 => Idx::Boundary(u.arbitrary().unwrap_or(0)),
            5..=6 => Idx::Raw(u.int_in_range(0..=40usize).unwrap_or(0)),
            7..=8 => Idx::LenPlus(u.int_in_range(-3i8..=2).unwrap_or(0)),
            _ => Idx::Raw(*u.choose(&[usize::MAX, 1 << 56, isize::MAX as usize]).unwrap_or(&usize::MAX)),
        }
    }

    fn size(u: &mut Unstructured, grid: &[usize]) -> Size {
        match u.int_in_range(0u8..=11).unwrap_or(0) {
            0..=3 => Size::Abs(u.int_in_range(0..=64usize).unwrap_or(0)),
            4 => Size::Abs(*u.choose(&[15usize, 16, 17, 31, 32, 33, 100, 256, 4096]).unwrap_or(&16)),
            5..=6 => Size::CapPlus(u.int_in_range(-2i16..=2).unwrap_or(0)),
            7 => Size::LenPlus(u.int_in_range(-2i16..=2).unwrap_or(0)),
            8..=9 => Size::RoomPlus(u.int_in_range(-2i16..=2).unwrap_or(0)),
            10 => Size::Abs(grid[u.int_in_range(0..=grid.len() - 1).unwrap_or(0)]),
            _ => Size::MaxMinusLenMinus(u.int_in_range(0u8..=2).unwrap_or(0)),
        }
    }

    fn text_arg(u: &mut Unstructured) -> Text {
        if u.ratio(1u8, 5u8).unwrap_or(false) {
            Text::Fill { delta: u.int_in_range(-2i16..=2).unwrap_or(0), unit: 'x' }
        } else {
            Text::Lit(text(u, 200))
        }
    }

    fn iter(u: &mut Unstructured, grid: &[usize]) -> IterSpec {
        let kinds = [IterKind::Char, IterKind::RefChar, IterKind::Str, IterKind::String, IterKind::BoxStr, IterKind::CowB, IterKind::CowO, IterKind::Lean, IterKind::LeanSlots];
        let kind = *u.choose(&kinds).unwrap_or(&IterKind::Char);
        let n = u.int_in_range(0..=4usize).unwrap_or(0);
        let items = if kind == IterKind::LeanSlots { vec![] } else { (0..n).map(|_| text(u, 40)).collect() };
        let slots = if kind == IterKind::LeanSlots { (0..n.min(3)).map(|_| u.int_in_range(0..=SLOTS as u8 - 1).unwrap_or(0)).collect() } else { vec![] };
        let hint = match u.int_in_range(0u8..=5).unwrap_or(0) {
            0 => Some(u.int_in_range(0..=64usize).unwrap_or(0)),
            1 => Some(grid[u.int_in_range(0..=grid.len() - 1).unwrap_or(0)]),
            _ => None,
        };
        let panic_at = if u.ratio(1u8, 4u8).unwrap_or(false) { Some(u.int_in_range(0u16..=8).unwrap_or(0)) } else { None };
        let loose = if hint.is_none() && u.ratio(1u8, 5u8).unwrap_or(false) { Some(*u.choose(&[1u16, 7, 40, 1000]).unwrap_or(&7)) } else { None };
        IterSpec { kind, items, slots, hint, panic_at, loose, fx: None, upper: None }
    }

    fn pieces(u: &mut Unstructured) -> Pieces {
        let n = u.int_in_range(0..=4usize).unwrap_or(0);
        let pieces = (0..n).map(|_| text(u, 40)).collect();
        let (err_at, panic_at) = match u.int_in_range(0u8..=5).unwrap_or(0) {
            0 => (Some(u.int_in_range(0u16..=4).unwrap_or(0)), None),
            1 => (None, Some(u.int_in_range(0u16..=4).unwrap_or(0))),
            _ => (None, None),
        };
        Pieces { pieces, err_at, panic_at, fx: None }
    }

    /// Decodes a whole history (up to `max_ops` operations) from raw fuzz input.
    pub fn decode_history(data: &[u8], max_ops: usize) -> History {
        let grid = size_grid();
        let mut u = Unstructured::new(data);
        let mut ops = Vec::new();
        while !u.is_empty() && ops.len() < max_ops {
            let slot = u.int_in_range(0..=SLOTS as u8 - 1).unwrap_or(0);
            let other = u.int_in_range(0..=SLOTS as u8 - 1).unwrap_or(0);
            let try_ = u.arbitrary().unwrap_or(false);
            let vias = [Via::Str, Via::String, Via::RefString, Via::BoxStr, Via::CowB, Via::CowO, Via::Parse, Via::Utf8, Via::Utf8Unchecked, Via::ToLeanString, Via::ToLeanStr, Via::ToLeanCow, Via::ToLeanBox];
            let op = match u.int_in_range(0u8..=39).unwrap_or(0) {
                0 => Op::New { slot },
                1..=4 => Op::FromText { slot, via: *u.choose(&vias).unwrap_or(&Via::Str), text: text(&mut u, 300) },
                5 => Op::FromChar { slot, ch: ch(&mut u), via: *u.choose(&[CharVia::From, CharVia::ToLean, CharVia::TryToLean]).unwrap_or(&CharVia::From) },
                6 => Op::FromStatic { slot, k: u.arbitrary().unwrap_or(0) },
                7 => Op::WithCapacity { slot, n: size(&mut u, &grid), try_ },
                8 => Op::Collect { slot, it: iter(&mut u, &grid) },
                9 => Op::Display { slot, d: pieces(&mut u), try_ },
                10..=13 => Op::Clone { slot, from: other, via: *u.choose(&[CloneVia::Clone, CloneVia::FromRef, CloneVia::ToLean, CloneVia::TryToLean]).unwrap_or(&CloneVia::Clone) },
                14..=15 => Op::CloneFrom { slot, from: other },
                16..=17 => Op::Drop { slot },
                18 => Op::Take { slot, from: other },
                19 => Op::Swap { a: slot, b: other },
                20 => Op::OptionRoundTrip { slot },
                21..=22 => Op::Push { slot, ch: ch(&mut u), try_ },
                23..=24 => Op::PushStr { slot, text: text_arg(&mut u), try_ },
                25 => Op::Pop { slot, try_ },
                26 => Op::Remove { slot, idx: idx(&mut u), try_ },
                27 => Op::Insert { slot, idx: idx(&mut u), ch: ch(&mut u), try_ },
                28 => Op::InsertStr { slot, idx: idx(&mut u), text: text_arg(&mut u), try_ },
                29..=30 => Op::Truncate { slot, n: idx(&mut u), try_ },
                31 => Op::Clear { slot },
                32 => Op::Retain { slot, r: RetainSpec { mask: u.arbitrary().unwrap_or(0), panic_at: if u.ratio(1u8, 4u8).unwrap_or(false) { Some(u.int_in_range(0u16..=20).unwrap_or(0)) } else { None }, fx: None }, try_ },
                33..=34 => Op::Reserve { slot, n: size(&mut u, &grid), try_ },
                35 => Op::ShrinkTo { slot, n: size(&mut u, &grid), try_ },
                36 => Op::ShrinkToFit { slot, try_ },
                37 if u.ratio(1u8, 4u8).unwrap_or(false) => Op::WriteArg { slot, from: other, spec: u.int_in_range(0u8..=9).unwrap_or(0) },
                37 => Op::Extend { slot, it: iter(&mut u, &grid) },
                38 => Op::Write { slot, d: pieces(&mut u) },
                _ => Op::Compare { a: slot, b: other },
            };
            ops.push(op);
        }
        History { ops, plan: Plan::default() }
    }
}
