//! proptest generators for histories (construction, not rejection).

use crate::ir::*;
use proptest::collection::vec;
use proptest::prelude::*;
use proptest::sample::select;
use proptest::strategy::Union;

pub const ALPHA: &[char] = &[
    'a', 'b', 'z', '0', ' ', '\0', '\x7f', 'é', '\u{80}', '\u{7ff}', '€', '\u{800}', '\u{fffd}', '\u{ffff}', '𝄞',
    '\u{10000}', '\u{10ffff}', 'c', 'd', 'e', 'Q',
];

/// Text of exactly `len` bytes built from the alphabet by cycling through `sel`.
pub fn build_text(len: usize, sel: &[u8], rev: bool) -> String {
    let mut s = String::with_capacity(len);
    let mut chars: Vec<char> = Vec::new();
    let mut used = 0;
    let mut i = 0;
    while used < len {
        let c = if sel.is_empty() { 'a' } else { ALPHA[sel[i % sel.len()] as usize % ALPHA.len()] };
        i += 1;
        let c = if used + c.len_utf8() <= len { c } else { '~' };
        used += c.len_utf8();
        chars.push(c);
    }
    if rev {
        chars.reverse();
    }
    s.extend(chars);
    s
}

#[derive(Clone, Debug)]
pub struct Profile {
    pub min_ops: usize,
    pub max_ops: usize,
    pub slots: u8,
    pub w_ctor: u32,
    pub w_static: u32,
    pub w_clone: u32,
    pub w_drop: u32,
    pub w_handle: u32,
    pub w_append: u32,
    pub w_trunc: u32,
    pub w_index: u32,
    pub w_retain: u32,
    pub w_reserve: u32,
    pub w_shrink: u32,
    pub w_extend: u32,
    pub w_convert: u32,
    pub w_compare: u32,
    pub giant_sizes: bool,
    pub lying_hints: bool,
    pub callback_panics: bool,
    pub max_text: usize,
    pub fill_bias: bool,
}

impl Profile {
    pub fn base() -> Self {
        Profile {
            min_ops: 1,
            max_ops: 40,
            slots: SLOTS as u8,
            w_ctor: 10,
            w_static: 4,
            w_clone: 12,
            w_drop: 6,
            w_handle: 4,
            w_append: 16,
            w_trunc: 10,
            w_index: 10,
            w_retain: 3,
            w_reserve: 5,
            w_shrink: 4,
            w_extend: 5,
            w_convert: 4,
            w_compare: 2,
            giant_sizes: false,
            lying_hints: false,
            callback_panics: false,
            max_text: 300,
            fill_bias: false,
        }
    }
    pub fn sharing() -> Self {
        Profile { slots: 4, w_clone: 30, w_drop: 10, w_trunc: 16, ..Self::base() }
    }
    pub fn statics() -> Self {
        Profile { slots: 4, w_static: 25, w_ctor: 3, w_clone: 14, w_trunc: 18, ..Self::base() }
    }
    pub fn capacity() -> Self {
        Profile { slots: 3, w_reserve: 18, w_append: 26, w_shrink: 8, w_clone: 6, fill_bias: true, ..Self::base() }
    }
    pub fn shrink() -> Self {
        Profile { slots: 3, w_shrink: 30, w_reserve: 14, w_clone: 14, w_trunc: 10, giant_sizes: true, ..Self::base() }
    }
    pub fn sizes() -> Self {
        Profile { slots: 3, w_reserve: 25, w_shrink: 8, w_extend: 14, w_clone: 14, giant_sizes: true, lying_hints: true, max_ops: 20, ..Self::base() }
    }
    pub fn faults() -> Self {
        Profile { min_ops: 3, max_ops: 14, slots: 3, w_clone: 16, w_extend: 8, max_text: 120, ..Self::base() }
    }
    pub fn panics() -> Self {
        Profile { min_ops: 2, max_ops: 12, slots: 3, w_clone: 14, w_retain: 18, w_extend: 22, w_convert: 10, callback_panics: true, max_text: 80, ..Self::base() }
    }
    pub fn index() -> Self {
        Profile { slots: 3, w_index: 40, w_clone: 14, w_trunc: 14, max_text: 64, ..Self::base() }
    }
    pub fn inline_edits() -> Self {
        Profile { slots: 2, w_ctor: 14, w_static: 0, w_clone: 2, w_reserve: 0, w_shrink: 0, w_extend: 0, w_convert: 6, max_text: 16, ..Self::base() }
    }
}

pub fn len_strategy(max: usize) -> BoxedStrategy<usize> {
    let mut v: Vec<(u32, BoxedStrategy<usize>)> = vec![
        (30, (0usize..=15.min(max)).boxed()),
        (6, select(vec![0usize, 1, 7, 8, 15.min(max)]).boxed()),
    ];
    if max >= 16 {
        v.push((10, Just(16usize).boxed()));
    }
    if max >= 33 {
        v.push((28, (17usize..=33).boxed()));
        v.push((6, select(vec![17usize, 23, 24, 25, 31, 32, 33]).boxed()));
    }
    if max >= 100 {
        v.push((12, (34usize..=100).boxed()));
    }
    if max >= 300 {
        v.push((5, (101usize..=300).boxed()));
    }
    if max > 300 {
        v.push((2, (301usize..=max).boxed()));
    }
    Union::new_weighted(v).boxed()
}

pub fn text_strategy(max: usize) -> BoxedStrategy<String> {
    (len_strategy(max), vec(any::<u8>(), 0..=6), any::<bool>())
        .prop_map(|(len, sel, rev)| build_text(len, &sel, rev))
        .boxed()
}

pub fn char_strategy() -> BoxedStrategy<char> {
    select(ALPHA.to_vec()).boxed()
}

pub fn size_grid() -> Vec<usize> {
    let mut v: Vec<usize> = vec![0, 1, 2];
    for k in 0..64u32 {
        for d in -2i64..=2 {
            let base = 1u128 << k;
            let x = base as i128 + d as i128;
            if x >= 0 && x <= usize::MAX as i128 {
                v.push(x as usize);
            }
        }
    }
    for d in 0..=2usize {
        v.push((1usize << 56) - d);
        v.push((1usize << 56) + d);
        v.push(isize::MAX as usize - d);
        v.push(isize::MAX as usize + d);
        v.push(usize::MAX - d);
    }
    v.sort_unstable();
    v.dedup();
    v
}

pub fn idx_strategy() -> BoxedStrategy<Idx> {
    prop_oneof![
        5 => any::<u16>().prop_map(Idx::Boundary),
        3 => (0usize..=40).prop_map(Idx::Raw),
        3 => (-3i8..=2).prop_map(Idx::LenPlus),
        1 => select(vec![usize::MAX, usize::MAX - 1, 1 << 56, isize::MAX as usize, 1 << 32]).prop_map(Idx::Raw),
    ]
    .boxed()
}

pub fn size_strategy(p: &Profile) -> BoxedStrategy<Size> {
    let mut v: Vec<(u32, BoxedStrategy<Size>)> = vec![
        (4, (0usize..=64).prop_map(Size::Abs).boxed()),
        (2, select(vec![15usize, 16, 17, 23, 24, 25, 31, 32, 33, 48, 100, 255, 256, 1000, 4096]).prop_map(Size::Abs).boxed()),
        (2, (-2i16..=2).prop_map(Size::CapPlus).boxed()),
        (2, (-2i16..=2).prop_map(Size::LenPlus).boxed()),
        (2, (-2i16..=2).prop_map(Size::RoomPlus).boxed()),
    ];
    if p.giant_sizes {
        v.push((4, select(size_grid()).prop_map(Size::Abs).boxed()));
        v.push((1, (0u8..=2).prop_map(Size::MaxMinusLenMinus).boxed()));
    }
    Union::new_weighted(v).boxed()
}

pub fn text_arg_strategy(p: &Profile) -> BoxedStrategy<Text> {
    let fill = if p.fill_bias { 6 } else { 1 };
    prop_oneof![
        8 => text_strategy(p.max_text).prop_map(Text::Lit),
        fill => (-2i16..=2).prop_map(|d| Text::Fill { delta: d, unit: 'x' }),
    ]
    .boxed()
}

pub fn iter_strategy(p: &Profile) -> BoxedStrategy<IterSpec> {
    let kinds = vec![
        IterKind::Char,
        IterKind::Char,
        IterKind::RefChar,
        IterKind::Str,
        IterKind::String,
        IterKind::BoxStr,
        IterKind::CowB,
        IterKind::CowO,
        IterKind::Lean,
        IterKind::LeanSlots,
    ];
    let hint: BoxedStrategy<Option<usize>> = if p.lying_hints {
        prop_oneof![
            5 => Just(None),
            2 => (0usize..=64).prop_map(Some),
            4 => select(size_grid()).prop_map(Some),
        ]
        .boxed()
    } else {
        Just(None).boxed()
    };
    let panic_at: BoxedStrategy<Option<u16>> = if p.callback_panics {
        prop_oneof![2 => Just(None), 5 => (0u16..=8).prop_map(Some)].boxed()
    } else {
        Just(None).boxed()
    };
    let slots = p.slots;
    (select(kinds), vec(text_strategy(p.max_text.min(40)), 0..=5), vec(0u8..slots, 0..=3), hint, panic_at)
        .prop_map(|(kind, items, slots, hint, panic_at)| {
            let slots = if kind == IterKind::LeanSlots { slots } else { vec![] };
            let items = if kind == IterKind::LeanSlots { vec![] } else { items };
            IterSpec { kind, items, slots, hint, panic_at }
        })
        .boxed()
}

pub fn pieces_strategy(p: &Profile) -> BoxedStrategy<Pieces> {
    let opt = |on: bool| -> BoxedStrategy<Option<u16>> {
        if on { prop_oneof![3 => Just(None), 2 => (0u16..=4).prop_map(Some)].boxed() } else { Just(None).boxed() }
    };
    (vec(text_strategy(p.max_text.min(40)), 0..=4), opt(true), opt(p.callback_panics))
        .prop_map(|(pieces, err_at, panic_at)| {
            // a panic position hides a later error position and vice versa: keep at most one, the earlier
            let (err_at, panic_at) = match (err_at, panic_at) {
                (Some(e), Some(q)) if e <= q => (Some(e), None),
                (Some(_), Some(q)) => (None, Some(q)),
                x => x,
            };
            Pieces { pieces, err_at, panic_at }
        })
        .boxed()
}

fn int_strategy() -> BoxedStrategy<(IntTy, bool, String)> {
    let tys = vec![
        IntTy::I8,
        IntTy::U8,
        IntTy::I16,
        IntTy::U16,
        IntTy::I32,
        IntTy::U32,
        IntTy::I64,
        IntTy::U64,
        IntTy::I128,
        IntTy::U128,
        IntTy::Isize,
        IntTy::Usize,
    ];
    let val = prop_oneof![
        3 => any::<i64>().prop_map(|v| v.to_string()),
        2 => (-1000i64..=1000).prop_map(|v| v.to_string()),
        2 => (0u32..=38, -3i128..=3, any::<bool>()).prop_map(|(k, d, neg)| {
            let v = 10i128.pow(k).saturating_add(d);
            (if neg { -v } else { v }).to_string()
        }),
        1 => any::<i128>().prop_map(|v| v.to_string()),
        1 => any::<u128>().prop_map(|v| v.to_string()),
    ];
    (select(tys), any::<bool>(), val).boxed()
}

pub fn op_strategy(p: &Profile) -> BoxedStrategy<Op> {
    let n = p.slots;
    let slot = move || 0u8..n;
    let text = || text_strategy(p.max_text);
    let vias = vec![
        Via::Str,
        Via::Str,
        Via::String,
        Via::RefString,
        Via::BoxStr,
        Via::CowB,
        Via::CowO,
        Via::Parse,
        Via::Utf8,
        Via::Utf8Unchecked,
        Via::ToLeanString,
        Via::ToLeanStr,
        Via::ToLeanCow,
        Via::ToLeanBox,
    ];
    let ctor = prop_oneof![
        1 => slot().prop_map(|slot| Op::New { slot }),
        1 => slot().prop_map(|slot| Op::Default { slot }),
        12 => (slot(), select(vias), text()).prop_map(|(slot, via, text)| Op::FromText { slot, via, text }),
        2 => (slot(), char_strategy(), select(vec![CharVia::From, CharVia::ToLean, CharVia::TryToLean]))
            .prop_map(|(slot, ch, via)| Op::FromChar { slot, ch, via }),
        3 => (slot(), size_strategy(p), any::<bool>()).prop_map(|(slot, n, try_)| Op::WithCapacity { slot, n, try_ }),
    ]
    .boxed();
    let convert = prop_oneof![
        1 => (slot(), any::<bool>(), any::<bool>()).prop_map(|(slot, v, try_)| Op::FromBool { slot, v, try_ }),
        4 => (slot(), int_strategy(), any::<bool>())
            .prop_map(|(slot, (ty, nonzero, v), try_)| Op::FromInt { slot, ty, nonzero, v, try_ }),
        2 => (slot(), vec(select(vec![0x41u8, 0x80, 0xbf, 0xc2, 0xe0, 0xed, 0xf0, 0xf4, 0xff, 0x7f, 0xa0, 0x9f]), 0..=24))
            .prop_map(|(slot, b)| Op::FromUtf8Lossy { slot, hex: hex_encode(&b) }),
        2 => (slot(), vec(select(vec![0x41u16, 0xe9, 0x7ff, 0x800, 0xd7ff, 0xd800, 0xdbff, 0xdc00, 0xdfff, 0xe000, 0xfffd]), 0..=20), any::<bool>())
            .prop_map(|(slot, units, lossy)| Op::FromUtf16 { slot, units, lossy }),
        3 => (slot(), iter_strategy(p)).prop_map(|(slot, it)| Op::Collect { slot, it }),
        3 => (slot(), pieces_strategy(p), any::<bool>()).prop_map(|(slot, d, try_)| Op::Display { slot, d, try_ }),
    ]
    .boxed();
    let stat = (slot(), any::<u16>()).prop_map(|(slot, k)| Op::FromStatic { slot, k }).boxed();
    let clone = prop_oneof![
        8 => (slot(), slot(), select(vec![CloneVia::Clone, CloneVia::Clone, CloneVia::FromRef, CloneVia::ToLean, CloneVia::TryToLean]))
            .prop_map(|(slot, from, via)| Op::Clone { slot, from, via }),
        3 => (slot(), slot()).prop_map(|(slot, from)| Op::CloneFrom { slot, from }),
    ]
    .boxed();
    let drop = slot().prop_map(|slot| Op::Drop { slot }).boxed();
    let handle = prop_oneof![
        2 => (slot(), slot()).prop_map(|(slot, from)| Op::Take { slot, from }),
        2 => (slot(), slot()).prop_map(|(a, b)| Op::Swap { a, b }),
        3 => slot().prop_map(|slot| Op::OptionRoundTrip { slot }),
    ]
    .boxed();
    let append = prop_oneof![
        6 => (slot(), char_strategy(), any::<bool>()).prop_map(|(slot, ch, try_)| Op::Push { slot, ch, try_ }),
        6 => (slot(), text_arg_strategy(p), any::<bool>()).prop_map(|(slot, text, try_)| Op::PushStr { slot, text, try_ }),
        1 => (slot(), text_arg_strategy(p)).prop_map(|(slot, text)| Op::AddAssign { slot, text }),
        1 => (slot(), text_arg_strategy(p)).prop_map(|(slot, text)| Op::Add { slot, text }),
        2 => (slot(), pieces_strategy(p)).prop_map(|(slot, d)| Op::Write { slot, d }),
    ]
    .boxed();
    let trunc = prop_oneof![
        4 => (slot(), any::<bool>()).prop_map(|(slot, try_)| Op::Pop { slot, try_ }),
        4 => (slot(), idx_strategy(), any::<bool>()).prop_map(|(slot, n, try_)| Op::Truncate { slot, n, try_ }),
        1 => slot().prop_map(|slot| Op::Clear { slot }),
    ]
    .boxed();
    let index = prop_oneof![
        3 => (slot(), idx_strategy(), any::<bool>()).prop_map(|(slot, idx, try_)| Op::Remove { slot, idx, try_ }),
        3 => (slot(), idx_strategy(), char_strategy(), any::<bool>())
            .prop_map(|(slot, idx, ch, try_)| Op::Insert { slot, idx, ch, try_ }),
        3 => (slot(), idx_strategy(), text_arg_strategy(p), any::<bool>())
            .prop_map(|(slot, idx, text, try_)| Op::InsertStr { slot, idx, text, try_ }),
    ]
    .boxed();
    let panic_at: BoxedStrategy<Option<u16>> = if p.callback_panics {
        prop_oneof![2 => Just(None), 5 => (0u16..=20).prop_map(Some)].boxed()
    } else {
        Just(None).boxed()
    };
    let retain = (slot(), any::<u64>(), panic_at, any::<bool>())
        .prop_map(|(slot, mask, panic_at, try_)| Op::Retain { slot, r: RetainSpec { mask, panic_at }, try_ })
        .boxed();
    let reserve = (slot(), size_strategy(p), any::<bool>()).prop_map(|(slot, n, try_)| Op::Reserve { slot, n, try_ }).boxed();
    let shrink = prop_oneof![
        2 => (slot(), size_strategy(p), any::<bool>()).prop_map(|(slot, n, try_)| Op::ShrinkTo { slot, n, try_ }),
        1 => (slot(), any::<bool>()).prop_map(|(slot, try_)| Op::ShrinkToFit { slot, try_ }),
    ]
    .boxed();
    let extend = (slot(), iter_strategy(p)).prop_map(|(slot, it)| Op::Extend { slot, it }).boxed();
    let compare = (slot(), slot()).prop_map(|(a, b)| Op::Compare { a, b }).boxed();

    let all: Vec<(u32, BoxedStrategy<Op>)> = vec![
        (p.w_ctor, ctor),
        (p.w_convert, convert),
        (p.w_static, stat),
        (p.w_clone, clone),
        (p.w_drop, drop),
        (p.w_handle, handle),
        (p.w_append, append),
        (p.w_trunc, trunc),
        (p.w_index, index),
        (p.w_retain, retain),
        (p.w_reserve, reserve),
        (p.w_shrink, shrink),
        (p.w_extend, extend),
        (p.w_compare, compare),
    ];
    Union::new_weighted(all.into_iter().filter(|(w, _)| *w > 0).collect()).boxed()
}

pub fn history_strategy(p: &Profile) -> BoxedStrategy<History> {
    vec(op_strategy(p), p.min_ops..=p.max_ops).prop_map(|ops| History { ops, plan: Plan::default() }).boxed()
}
