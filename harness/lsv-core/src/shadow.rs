#![cfg_attr(not(feature = "hooks"), allow(dead_code))]
//! Shadow heap installed through lean_string's `verif-hooks` feature.
//!
//! Thread-local: every worker thread has its own heap, so 16 shards can run in one process.
//! Hook callbacks never panic (they run inside Drop paths); they record violations instead.

use std::alloc::{GlobalAlloc, Layout, System};
use std::cell::RefCell;
use std::collections::BTreeMap;

pub const GUARD: usize = 64;
pub const GUARD_BYTE: u8 = 0xAB;
pub const FRESH_BYTE: u8 = 0xFE;
pub const FREED_BYTE: u8 = 0xDD;
pub const DEFAULT_GIANT_LIMIT: usize = (1 << 20) + 64;

#[derive(Clone, Copy, Debug, PartialEq, Eq, Hash)]
pub enum EvKind {
    Alloc,
    Realloc,
    Dealloc,
    /// request refused because of the fault plan
    FaultAlloc,
    FaultRealloc,
    /// request refused because it is larger than the giant limit
    GiantAlloc,
    GiantRealloc,
}

#[derive(Clone, Copy, Debug)]
pub struct Event {
    pub kind: EvKind,
    /// requested size (new size for realloc, block size for dealloc)
    pub size: usize,
    /// previous size (realloc only)
    pub old_size: usize,
    /// block start (new block for alloc/realloc)
    pub addr: usize,
}

#[derive(Clone, Debug)]
pub struct HeapViolation {
    /// clause id suffix, e.g. "double_free"
    pub clause: &'static str,
    pub detail: String,
}

#[derive(Clone, Copy, Debug)]
pub struct Block {
    pub start: usize,
    pub size: usize,
    pub align: usize,
    base: usize,
    sys_size: usize,
    pub id: u64,
}

impl Block {
    fn sys_layout(&self) -> Layout {
        Layout::from_size_align(self.sys_size, 64).unwrap()
    }
    pub fn contains(&self, addr: usize, len: usize) -> bool {
        addr >= self.start && addr.checked_add(len).is_some_and(|e| e <= self.start + self.size)
    }
}

pub struct Heap {
    pub live: BTreeMap<usize, Block>,
    pub quarantine: std::collections::VecDeque<Block>,
    pub events: Vec<Event>,
    /// allocator requests (alloc + realloc) since `begin_case`
    pub requests_total: u64,
    pub fault_plan: Vec<u64>,
    pub faults_fired: u64,
    pub refused_giant: u64,
    pub giant_limit: usize,
    pub violations: Vec<HeapViolation>,
    pub bytes_moved: u64,
    pub note_counts: [u64; 4],
    pub next_id: u64,
    pub enabled: bool,
    /// total bytes in quarantine (bounded: beyond this, oldest blocks are verified and released)
    pub quarantine_bytes: usize,
}

impl Heap {
    fn new() -> Self {
        Heap {
            live: BTreeMap::new(),
            quarantine: std::collections::VecDeque::new(),
            events: Vec::new(),
            requests_total: 0,
            fault_plan: Vec::new(),
            faults_fired: 0,
            refused_giant: 0,
            giant_limit: DEFAULT_GIANT_LIMIT,
            violations: Vec::new(),
            bytes_moved: 0,
            note_counts: [0; 4],
            next_id: 0,
            enabled: true,
            quarantine_bytes: 0,
        }
    }

    fn violation(&mut self, clause: &'static str, detail: String) {
        if self.violations.len() < 32 {
            self.violations.push(HeapViolation { clause, detail });
        }
    }

    pub fn find_live(&self, addr: usize) -> Option<&Block> {
        self.live.range(..=addr).next_back().map(|(_, b)| b).filter(|b| addr <= b.start + b.size)
    }

    fn find_quarantined(&self, addr: usize) -> Option<&Block> {
        self.quarantine.iter().find(|b| addr >= b.start && addr <= b.start + b.size)
    }

    unsafe fn sys_new(&mut self, size: usize, align: usize) -> Option<Block> {
        let sys_size = size.checked_add(2 * GUARD)?;
        let layout = Layout::from_size_align(sys_size, 64).ok()?;
        let base = unsafe { System.alloc(layout) };
        if base.is_null() {
            return None;
        }
        unsafe {
            std::ptr::write_bytes(base, GUARD_BYTE, GUARD);
            std::ptr::write_bytes(base.add(GUARD), FRESH_BYTE, size);
            std::ptr::write_bytes(base.add(GUARD + size), GUARD_BYTE, GUARD);
        }
        let id = self.next_id;
        self.next_id += 1;
        Some(Block { start: base as usize + GUARD, size, align, base: base as usize, sys_size, id })
    }

    fn guards_ok(b: &Block) -> bool {
        unsafe {
            let base = b.base as *const u8;
            let lo = std::slice::from_raw_parts(base, GUARD);
            let hi = std::slice::from_raw_parts(base.add(GUARD + b.size), GUARD);
            lo.iter().all(|&x| x == GUARD_BYTE) && hi.iter().all(|&x| x == GUARD_BYTE)
        }
    }

    fn poison_ok(b: &Block) -> bool {
        unsafe {
            let body = std::slice::from_raw_parts(b.start as *const u8, b.size);
            body.iter().all(|&x| x == FREED_BYTE)
        }
    }

    fn retire(&mut self, b: Block) {
        if !Self::guards_ok(&b) {
            self.violation(
                "guard",
                format!("guard zone of block #{} (size {}) damaged at release", b.id, b.size),
            );
        }
        unsafe { std::ptr::write_bytes(b.start as *mut u8, FREED_BYTE, b.size) };
        self.quarantine_bytes += b.size;
        self.quarantine.push_back(b);
        // keep memory bounded for long loops (sweeps over billions of values inside one case): release the oldest
        // blocks after verifying them, and forget the oldest part of the event log
        while (self.quarantine_bytes > (256 << 20) || self.quarantine.len() > 8192) && self.quarantine.len() > 1 {
            let old = self.quarantine.pop_front().unwrap();
            self.quarantine_bytes -= old.size;
            self.release_quarantined(old);
        }
        if self.events.len() > (1 << 20) {
            self.events.clear();
        }
    }

    fn release_quarantined(&mut self, b: Block) {
        if !Self::poison_ok(&b) {
            self.violation(
                "write_after_free",
                format!("released block #{} (size {}) was written after its release", b.id, b.size),
            );
        }
        if !Self::guards_ok(&b) {
            self.violation("guard", format!("guard zone of released block #{} damaged", b.id));
        }
        unsafe { System.dealloc(b.base as *mut u8, b.sys_layout()) };
    }

    fn next_request_faulted(&mut self) -> bool {
        let idx = self.requests_total;
        self.requests_total += 1;
        if self.fault_plan.contains(&idx) {
            self.faults_fired += 1;
            true
        } else {
            false
        }
    }

    unsafe fn do_alloc(&mut self, layout: Layout) -> *mut u8 {
        if self.next_request_faulted() {
            self.events.push(Event { kind: EvKind::FaultAlloc, size: layout.size(), old_size: 0, addr: 0 });
            return std::ptr::null_mut();
        }
        if layout.size() > self.giant_limit {
            self.refused_giant += 1;
            self.events.push(Event { kind: EvKind::GiantAlloc, size: layout.size(), old_size: 0, addr: 0 });
            return std::ptr::null_mut();
        }
        match unsafe { self.sys_new(layout.size(), layout.align()) } {
            Some(b) => {
                self.events.push(Event { kind: EvKind::Alloc, size: b.size, old_size: 0, addr: b.start });
                self.live.insert(b.start, b);
                b.start as *mut u8
            }
            None => std::ptr::null_mut(),
        }
    }

    unsafe fn do_dealloc(&mut self, ptr: *mut u8, layout: Layout) {
        let addr = ptr as usize;
        match self.live.remove(&addr) {
            Some(b) => {
                if b.size != layout.size() || b.align != layout.align() {
                    self.violation(
                        "layout_mismatch",
                        format!(
                            "dealloc of block #{} with size {} align {}, allocated with size {} align {}",
                            b.id,
                            layout.size(),
                            layout.align(),
                            b.size,
                            b.align
                        ),
                    );
                }
                self.events.push(Event { kind: EvKind::Dealloc, size: b.size, old_size: 0, addr });
                self.retire(b);
            }
            None => {
                if let Some(q) = self.find_quarantined(addr) {
                    let id = q.id;
                    self.violation("double_free", format!("dealloc of already released block #{id}"));
                } else {
                    self.violation("unknown_free", format!("dealloc of unknown pointer {addr:#x}"));
                }
            }
        }
    }

    unsafe fn do_realloc(&mut self, ptr: *mut u8, layout: Layout, new_size: usize) -> *mut u8 {
        let addr = ptr as usize;
        if self.next_request_faulted() {
            self.events.push(Event { kind: EvKind::FaultRealloc, size: new_size, old_size: layout.size(), addr });
            return std::ptr::null_mut();
        }
        let Some(old) = self.live.get(&addr).copied() else {
            if self.find_quarantined(addr).is_some() {
                self.violation("realloc_after_free", format!("realloc of released pointer {addr:#x}"));
            } else {
                self.violation("unknown_realloc", format!("realloc of unknown pointer {addr:#x}"));
            }
            return std::ptr::null_mut();
        };
        if old.size != layout.size() || old.align != layout.align() {
            self.violation(
                "layout_mismatch",
                format!(
                    "realloc of block #{} with size {} align {}, allocated with size {} align {}",
                    old.id,
                    layout.size(),
                    layout.align(),
                    old.size,
                    old.align
                ),
            );
        }
        if new_size > self.giant_limit {
            self.refused_giant += 1;
            self.events.push(Event { kind: EvKind::GiantRealloc, size: new_size, old_size: old.size, addr });
            return std::ptr::null_mut();
        }
        let Some(new) = (unsafe { self.sys_new(new_size, layout.align()) }) else {
            return std::ptr::null_mut();
        };
        let n = old.size.min(new_size);
        unsafe { std::ptr::copy_nonoverlapping(old.start as *const u8, new.start as *mut u8, n) };
        self.bytes_moved += n as u64;
        self.live.remove(&addr);
        self.retire(old);
        self.events.push(Event { kind: EvKind::Realloc, size: new_size, old_size: old.size, addr: new.start });
        self.live.insert(new.start, new);
        new.start as *mut u8
    }

    #[cfg(feature = "hooks")]
    fn do_note(&mut self, kind: lean_string::verif_hooks::Note, ptr: *const u8, len: usize) {
        use lean_string::verif_hooks::Note;
        self.note_counts[kind as usize] += 1;
        let addr = ptr as usize;
        let what = match kind {
            Note::InternalRead => "internal read",
            Note::HeaderRead => "header read",
            Note::Read => "read",
            Note::WriteWindow => "write window",
        };
        match self.find_live(addr) {
            Some(b) if b.contains(addr, len) => {
                if kind == Note::WriteWindow {
                    let rc = unsafe { lean_string::verif_hooks::refcount_of_data_ptr(ptr) };
                    if rc != 1 {
                        let id = b.id;
                        self.violation(
                            "write_while_shared",
                            format!("write window opened on block #{id} while its reference count is {rc}"),
                        );
                    }
                }
            }
            Some(b) => {
                let (id, start, size) = (b.id, b.start, b.size);
                self.violation(
                    "access_out_of_block",
                    format!(
                        "{what} of {len} bytes at offset {} of live block #{id} (size {size})",
                        addr - start
                    ),
                );
            }
            None => {
                if let Some(q) = self.find_quarantined(addr) {
                    let id = q.id;
                    self.violation("use_after_free", format!("{what} of {len} bytes in released block #{id}"));
                } else {
                    self.violation("access_unknown", format!("{what} of {len} bytes at unknown address {addr:#x}"));
                }
            }
        }
    }

    /// guard zones of all live blocks
    pub fn check_live_guards(&mut self) {
        let bad: Vec<u64> = self.live.values().filter(|b| !Self::guards_ok(b)).map(|b| b.id).collect();
        for id in bad {
            self.violation("guard", format!("guard zone of live block #{id} damaged (out-of-bounds write)"));
        }
    }

    /// quarantine poison intact
    pub fn check_quarantine(&mut self) {
        let bad: Vec<u64> = self.quarantine.iter().filter(|b| !Self::poison_ok(b)).map(|b| b.id).collect();
        for id in bad {
            self.violation("write_after_free", format!("released block #{id} was written after its release"));
        }
    }

    pub fn count_requests(&self) -> usize {
        self.events
            .iter()
            .filter(|e| !matches!(e.kind, EvKind::Dealloc))
            .count()
    }

    pub fn count_refusals(&self) -> usize {
        self.events
            .iter()
            .filter(|e| {
                matches!(e.kind, EvKind::FaultAlloc | EvKind::FaultRealloc | EvKind::GiantAlloc | EvKind::GiantRealloc)
            })
            .count()
    }

    /// releases everything (live blocks too); returns number of blocks that were still live
    pub fn end_case(&mut self) -> usize {
        self.check_live_guards();
        let q = std::mem::take(&mut self.quarantine);
        for b in q {
            self.release_quarantined(b);
        }
        self.quarantine_bytes = 0;
        let leaked = self.live.len();
        let live = std::mem::take(&mut self.live);
        for (_, b) in live {
            unsafe { System.dealloc(b.base as *mut u8, b.sys_layout()) };
        }
        leaked
    }

    pub fn begin_case(&mut self) {
        // anything left from an abandoned case is dropped without checks
        let q = std::mem::take(&mut self.quarantine);
        for b in q {
            unsafe { System.dealloc(b.base as *mut u8, b.sys_layout()) };
        }
        let live = std::mem::take(&mut self.live);
        for (_, b) in live {
            unsafe { System.dealloc(b.base as *mut u8, b.sys_layout()) };
        }
        self.quarantine_bytes = 0;
        self.events.clear();
        self.requests_total = 0;
        self.fault_plan.clear();
        self.faults_fired = 0;
        self.refused_giant = 0;
        self.giant_limit = DEFAULT_GIANT_LIMIT;
        self.violations.clear();
        self.bytes_moved = 0;
        self.next_id = 0;
    }
}

thread_local! {
    static HEAP: RefCell<Heap> = RefCell::new(Heap::new());
    /// allocations made by this thread through the global allocator, outside the shadow heap's own bookkeeping
    static GLOBAL_ALLOCS: std::cell::Cell<u64> = const { std::cell::Cell::new(0) };
    static IN_HOOK: std::cell::Cell<bool> = const { std::cell::Cell::new(false) };
    /// when armed: the n-th (0-based) global-allocator request of this thread from now on is refused
    static GLOBAL_FAIL_IN: std::cell::Cell<u64> = const { std::cell::Cell::new(u64::MAX) };
}

/// Arms a refusal of the k-th global-allocator request made by this thread (outside the shadow heap) from now on.
/// Only used around calls during which the harness itself allocates nothing.
pub fn arm_global_refusal(k: u64) {
    GLOBAL_FAIL_IN.with(|c| c.set(k));
}
pub fn disarm_global_refusal() -> bool {
    GLOBAL_FAIL_IN.with(|c| {
        let fired = c.get() == u64::MAX - 1;
        c.set(u64::MAX);
        fired
    })
}

fn global_refusal_due() -> bool {
    let in_hook = IN_HOOK.try_with(|h| h.get()).unwrap_or(true);
    if in_hook {
        return false;
    }
    GLOBAL_FAIL_IN
        .try_with(|c| {
            let v = c.get();
            if v >= u64::MAX - 1 {
                false
            } else if v == 0 {
                c.set(u64::MAX - 1);
                true
            } else {
                c.set(v - 1);
                false
            }
        })
        .unwrap_or(false)
}

/// Counting global allocator (System underneath): lets a check see allocations the crate makes *outside* its
/// own buffer management (e.g. a temporary String inside a conversion). The shadow heap obtains the crate's
/// buffers from `System` directly, so those are not counted here; its bookkeeping is masked by IN_HOOK.
pub struct CountingAlloc;

unsafe impl GlobalAlloc for CountingAlloc {
    unsafe fn alloc(&self, layout: Layout) -> *mut u8 {
        if global_refusal_due() {
            return std::ptr::null_mut();
        }
        let _ = IN_HOOK.try_with(|h| {
            if !h.get() {
                let _ = GLOBAL_ALLOCS.try_with(|c| c.set(c.get() + 1));
            }
        });
        unsafe { System.alloc(layout) }
    }
    unsafe fn dealloc(&self, ptr: *mut u8, layout: Layout) {
        unsafe { System.dealloc(ptr, layout) }
    }
    unsafe fn realloc(&self, ptr: *mut u8, layout: Layout, new_size: usize) -> *mut u8 {
        if global_refusal_due() {
            return std::ptr::null_mut();
        }
        let _ = IN_HOOK.try_with(|h| {
            if !h.get() {
                let _ = GLOBAL_ALLOCS.try_with(|c| c.set(c.get() + 1));
            }
        });
        unsafe { System.realloc(ptr, layout, new_size) }
    }
    unsafe fn alloc_zeroed(&self, layout: Layout) -> *mut u8 {
        let _ = IN_HOOK.try_with(|h| {
            if !h.get() {
                let _ = GLOBAL_ALLOCS.try_with(|c| c.set(c.get() + 1));
            }
        });
        unsafe { System.alloc_zeroed(layout) }
    }
}

#[global_allocator]
static GLOBAL: CountingAlloc = CountingAlloc;

/// number of global-allocator requests of this thread so far (excluding the shadow heap's bookkeeping)
pub fn global_allocs() -> u64 {
    GLOBAL_ALLOCS.with(|c| c.get())
}

struct HookGuard(bool);
impl HookGuard {
    fn enter() -> Self {
        HookGuard(IN_HOOK.try_with(|h| h.replace(true)).unwrap_or(true))
    }
}
impl Drop for HookGuard {
    fn drop(&mut self) {
        let _ = IN_HOOK.try_with(|h| h.set(self.0));
    }
}

/// Runs `f` on this thread's heap. Must not be called re-entrantly (never call into lean_string
/// from inside `f`).
pub fn with<R>(f: impl FnOnce(&mut Heap) -> R) -> R {
    HEAP.with(|h| f(&mut h.borrow_mut()))
}

#[cfg(feature = "hooks")]
unsafe fn hook_alloc(layout: Layout) -> *mut u8 {
    crate::callbacks::hook_fx_tick();
    let _g = HookGuard::enter();
    HEAP.with(|h| match h.try_borrow_mut() {
        Ok(mut h) => unsafe { h.do_alloc(layout) },
        Err(_) => std::ptr::null_mut(),
    })
}
#[cfg(feature = "hooks")]
unsafe fn hook_realloc(ptr: *mut u8, layout: Layout, new_size: usize) -> *mut u8 {
    crate::callbacks::hook_fx_tick();
    let _g = HookGuard::enter();
    HEAP.with(|h| match h.try_borrow_mut() {
        Ok(mut h) => unsafe { h.do_realloc(ptr, layout, new_size) },
        Err(_) => std::ptr::null_mut(),
    })
}
#[cfg(feature = "hooks")]
unsafe fn hook_dealloc(ptr: *mut u8, layout: Layout) {
    crate::callbacks::hook_fx_tick();
    let _g = HookGuard::enter();
    let _ = HEAP.try_with(|h| {
        if let Ok(mut h) = h.try_borrow_mut() {
            unsafe { h.do_dealloc(ptr, layout) }
        }
    });
}
#[cfg(feature = "hooks")]
fn hook_note(kind: lean_string::verif_hooks::Note, ptr: *const u8, len: usize) {
    crate::callbacks::hook_fx_tick();
    let _g = HookGuard::enter();
    let _ = HEAP.try_with(|h| {
        if let Ok(mut h) = h.try_borrow_mut() {
            h.do_note(kind, ptr, len)
        }
    });
}

#[cfg(feature = "hooks")]
static HOOKS: lean_string::verif_hooks::Hooks = lean_string::verif_hooks::Hooks {
    alloc: hook_alloc,
    realloc: hook_realloc,
    dealloc: hook_dealloc,
    note: hook_note,
};

/// Installs the shadow heap for the whole process (per-thread state).
pub fn install() {
    #[cfg(feature = "hooks")]
    lean_string::verif_hooks::install(&HOOKS);
}

/// overwrites the reference count of a heap handle's buffer (no-op when not on the heap or built without hooks)
pub fn set_refcount(s: &lean_string::LeanString, count: usize) {
    #[cfg(feature = "hooks")]
    if s.verif_refcount().is_some() {
        // SAFETY: `s` is a live heap handle; callers restore a count matching the live handles before dropping them
        unsafe { lean_string::verif_hooks::set_refcount_of_data_ptr(s.as_ptr(), count) }
    }
    #[cfg(not(feature = "hooks"))]
    let _ = (s, count);
}

/// reference count of a handle (None when not on the heap, or when built without hooks)
pub fn refcount_of(s: &lean_string::LeanString) -> Option<usize> {
    #[cfg(feature = "hooks")]
    return s.verif_refcount();
    #[cfg(not(feature = "hooks"))]
    {
        let _ = s;
        None
    }
}
