//! Harness-side callbacks handed to the crate: iterators that may lie about their size or panic,
//! Display implementations that write in pieces, fail or panic, retain predicates.

use crate::ir::{Pieces, RetainSpec};
use crate::outcome::Injected;
use std::fmt;

// ---- side effects of callbacks on other handles (armed by the executor around the real operation only)

pub struct FxState {
    pub at: u16,
    pub drop: bool,
    pub target: *mut Option<lean_string::LeanString>,
    pub extras: Vec<lean_string::LeanString>,
    pub fired: bool,
}

thread_local! {
    static FX: std::cell::RefCell<Option<FxState>> = const { std::cell::RefCell::new(None) };
}

pub fn fx_arm(at: u16, drop: bool, target: *mut Option<lean_string::LeanString>) {
    FX.with(|f| *f.borrow_mut() = Some(FxState { at, drop, target, extras: Vec::with_capacity(2), fired: false }));
}

/// disarms; returns whether the side effect happened (extra clones are dropped here)
pub fn fx_disarm() -> bool {
    FX.with(|f| f.borrow_mut().take()).map(|s| s.fired).unwrap_or(false)
}

/// called by every harness callback with its invocation number
pub fn fx_tick(k: u32) {
    let _ = FX.try_with(|f| {
        if let Ok(mut g) = f.try_borrow_mut() {
            if let Some(st) = g.as_mut() {
                if !st.fired && st.at as u32 == k {
                    st.fired = true;
                    // SAFETY: `target` points at a slot other than the one the running operation borrows
                    unsafe {
                        if st.drop {
                            *st.target = None;
                        } else if let Some(s) = (*st.target).as_ref() {
                            st.extras.push(s.clone());
                        }
                    }
                }
            }
        }
    });
}

// ---- "another thread" acting at the shim's hook events (allocator calls and buffer accesses of the crate)

thread_local! {
    static HOOK_FX_ARMED: std::cell::Cell<bool> = const { std::cell::Cell::new(false) };
    static HOOK_FX_COUNT: std::cell::Cell<u32> = const { std::cell::Cell::new(0) };
    static HOOK_FX_AT: std::cell::Cell<u32> = const { std::cell::Cell::new(0) };
    static HOOK_FX_DROP: std::cell::Cell<bool> = const { std::cell::Cell::new(false) };
    static HOOK_FX_FIRED: std::cell::Cell<bool> = const { std::cell::Cell::new(false) };
    static HOOK_FX_TARGET: std::cell::Cell<*mut Option<lean_string::LeanString>> = const { std::cell::Cell::new(std::ptr::null_mut()) };
    static HOOK_FX_EXTRA: std::cell::RefCell<Vec<lean_string::LeanString>> = const { std::cell::RefCell::new(Vec::new()) };
}

pub fn hook_fx_arm(at: u16, drop: bool, target: *mut Option<lean_string::LeanString>) {
    HOOK_FX_COUNT.with(|c| c.set(0));
    HOOK_FX_AT.with(|c| c.set(at as u32));
    HOOK_FX_DROP.with(|c| c.set(drop));
    HOOK_FX_FIRED.with(|c| c.set(false));
    HOOK_FX_TARGET.with(|c| c.set(target));
    // room for the extra clone is made now: no allocation inside the measured window
    HOOK_FX_EXTRA.with(|e| e.borrow_mut().reserve(2));
    HOOK_FX_ARMED.with(|c| c.set(true));
}

/// disarms; returns whether the intrusion happened (an extra clone is dropped here)
pub fn hook_fx_disarm() -> bool {
    HOOK_FX_ARMED.with(|c| c.set(false));
    let extra = HOOK_FX_EXTRA.with(|e| std::mem::take(&mut *e.borrow_mut()));
    drop(extra);
    HOOK_FX_FIRED.with(|c| c.get())
}

/// called by the shim at the start of every hook event (never while the shadow heap is borrowed)
#[inline]
pub fn hook_fx_tick() {
    let armed = HOOK_FX_ARMED.try_with(|c| c.get()).unwrap_or(false);
    if !armed {
        return;
    }
    let k = HOOK_FX_COUNT.with(|c| {
        let k = c.get();
        c.set(k + 1);
        k
    });
    if k != HOOK_FX_AT.with(|c| c.get()) || HOOK_FX_FIRED.with(|c| c.get()) {
        return;
    }
    HOOK_FX_FIRED.with(|c| c.set(true));
    // no further counting while the other thread's action runs (it produces hook events of its own)
    HOOK_FX_ARMED.with(|c| c.set(false));
    let target = HOOK_FX_TARGET.with(|c| c.get());
    // SAFETY: `target` points at a slot the running operation does not use
    unsafe {
        if HOOK_FX_DROP.with(|c| c.get()) {
            *target = None;
        } else if let Some(s) = (*target).as_ref() {
            let c = s.clone();
            HOOK_FX_EXTRA.with(|e| e.borrow_mut().push(c));
        }
    }
}

pub struct PlanIter<I> {
    pub inner: I,
    pub n: u32,
    pub panic_at: Option<u16>,
    pub hint: Option<usize>,
    pub loose: Option<u16>,
    pub upper: Option<usize>,
}

impl<I> PlanIter<I> {
    pub fn new(inner: I, hint: Option<usize>, panic_at: Option<u16>) -> Self {
        PlanIter { inner, n: 0, panic_at, hint, loose: None, upper: None }
    }
    pub fn loose(mut self, l: Option<u16>) -> Self {
        self.loose = l;
        self
    }
    pub fn upper(mut self, u: Option<usize>) -> Self {
        self.upper = u;
        self
    }
}

impl<I: Iterator> Iterator for PlanIter<I> {
    type Item = I::Item;
    fn next(&mut self) -> Option<I::Item> {
        let k = self.n;
        self.n += 1;
        fx_tick(k);
        if let Some(p) = self.panic_at {
            if p as u32 == k {
                std::panic::panic_any(Injected(p));
            }
        }
        self.inner.next()
    }
    fn size_hint(&self) -> (usize, Option<usize>) {
        if let Some(u) = self.upper {
            // a lower bound above the upper bound would be nonsense even for a lying iterator
            return (self.hint.unwrap_or(0).min(u), Some(u));
        }
        match (self.hint, self.loose) {
            (Some(h), _) => (h, None),
            (None, Some(slack)) => (0, self.inner.size_hint().1.map(|u| u + slack as usize)),
            (None, None) => self.inner.size_hint(),
        }
    }
}

pub struct PiecesDisplay<'a>(pub &'a Pieces);

impl fmt::Display for PiecesDisplay<'_> {
    fn fmt(&self, f: &mut fmt::Formatter<'_>) -> fmt::Result {
        let n = self.0.pieces.len();
        for i in 0..=n {
            fx_tick(i as u32);
            if self.0.panic_at == Some(i as u16) {
                std::panic::panic_any(Injected(i as u16));
            }
            if self.0.err_at == Some(i as u16) {
                return Err(fmt::Error);
            }
            if i < n {
                let p = &self.0.pieces[i];
                let mut cs = p.chars();
                match (cs.next(), cs.next()) {
                    // single characters go through Formatter::write_char, like a `char` argument or a fill does
                    (Some(c), None) => std::fmt::Write::write_char(f, c)?,
                    _ => f.write_str(p)?,
                }
            }
        }
        Ok(())
    }
}

/// A user type that goes through the generic arm of `to_lean_string`.
pub struct UserStruct<'a>(pub &'a str);
impl fmt::Display for UserStruct<'_> {
    fn fmt(&self, f: &mut fmt::Formatter<'_>) -> fmt::Result {
        write!(f, "{}", self.0)
    }
}

pub fn retain_pred(spec: RetainSpec) -> impl FnMut(char) -> bool {
    let mut i: u32 = 0;
    move |_c| {
        let k = i;
        i += 1;
        fx_tick(k);
        if let Some(p) = spec.panic_at {
            if p as u32 == k {
                std::panic::panic_any(Injected(p));
            }
        }
        (spec.mask >> (k % 64)) & 1 == 1
    }
}
