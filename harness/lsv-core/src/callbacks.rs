//! Harness-side callbacks handed to the crate: iterators that may lie about their size or panic,
//! Display implementations that write in pieces, fail or panic, retain predicates.

use crate::ir::{Pieces, RetainSpec};
use crate::outcome::Injected;
use std::fmt;

pub struct PlanIter<I> {
    pub inner: I,
    pub n: u32,
    pub panic_at: Option<u16>,
    pub hint: Option<usize>,
    pub loose: Option<u16>,
}

impl<I> PlanIter<I> {
    pub fn new(inner: I, hint: Option<usize>, panic_at: Option<u16>) -> Self {
        PlanIter { inner, n: 0, panic_at, hint, loose: None }
    }
    pub fn loose(mut self, l: Option<u16>) -> Self {
        self.loose = l;
        self
    }
}

impl<I: Iterator> Iterator for PlanIter<I> {
    type Item = I::Item;
    fn next(&mut self) -> Option<I::Item> {
        let k = self.n;
        self.n += 1;
        if let Some(p) = self.panic_at {
            if p as u32 == k {
                std::panic::panic_any(Injected(p));
            }
        }
        self.inner.next()
    }
    fn size_hint(&self) -> (usize, Option<usize>) {
        match (self.hint, self.loose) {
            (Some(h), _) => (h, None),
            (None, Some(slack)) => (0, self.inner.size_hint().1.map(|u| u + slack as usize)),
            (None, None) => self.inner.size_hint(),
        }
    }
}

pub struct PiecesDisplay<'a>(pub &'a Pieces);

impl fmt::Display for PiecesDisplay<'_> {
    fn fmt(&self, f: &mut fmt::Formatter<'_>) -> fmt::Result {
        let n = self.0.pieces.len();
        for i in 0..=n {
            if self.0.panic_at == Some(i as u16) {
                std::panic::panic_any(Injected(i as u16));
            }
            if self.0.err_at == Some(i as u16) {
                return Err(fmt::Error);
            }
            if i < n {
                f.write_str(&self.0.pieces[i])?;
            }
        }
        Ok(())
    }
}

/// A user type that goes through the generic arm of `to_lean_string`.
pub struct UserStruct<'a>(pub &'a str);
impl fmt::Display for UserStruct<'_> {
    fn fmt(&self, f: &mut fmt::Formatter<'_>) -> fmt::Result {
        write!(f, "{}", self.0)
    }
}

pub fn retain_pred(spec: RetainSpec) -> impl FnMut(char) -> bool {
    let mut i: u32 = 0;
    move |_c| {
        let k = i;
        i += 1;
        if let Some(p) = spec.panic_at {
            if p as u32 == k {
                std::panic::panic_any(Injected(p));
            }
        }
        (spec.mask >> (k % 64)) & 1 == 1
    }
}
