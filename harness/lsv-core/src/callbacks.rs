//! Harness-side callbacks handed to the crate: iterators that may lie about their size or panic,
//! Display implementations that write in pieces, fail or panic, retain predicates.

use crate::ir::{Pieces, RetainSpec};
use crate::outcome::Injected;
use std::fmt;

// ---- side effects of callbacks on other handles (armed by the executor around the real operation only)

pub struct FxState {
    pub at: u16,
    pub drop: bool,
    pub target: *mut Option<lean_string::LeanString>,
    pub extras: Vec<lean_string::LeanString>,
    pub fired: bool,
}

thread_local! {
    static FX: std::cell::RefCell<Option<FxState>> = const { std::cell::RefCell::new(None) };
}

pub fn fx_arm(at: u16, drop: bool, target: *mut Option<lean_string::LeanString>) {
    FX.with(|f| *f.borrow_mut() = Some(FxState { at, drop, target, extras: Vec::with_capacity(2), fired: false }));
}

/// disarms; returns whether the side effect happened (extra clones are dropped here)
pub fn fx_disarm() -> bool {
    FX.with(|f| f.borrow_mut().take()).map(|s| s.fired).unwrap_or(false)
}

/// called by every harness callback with its invocation number
pub fn fx_tick(k: u32) {
    let _ = FX.try_with(|f| {
        if let Ok(mut g) = f.try_borrow_mut() {
            if let Some(st) = g.as_mut() {
                if !st.fired && st.at as u32 == k {
                    st.fired = true;
                    // SAFETY: `target` points at a slot other than the one the running operation borrows
                    unsafe {
                        if st.drop {
                            *st.target = None;
                        } else if let Some(s) = (*st.target).as_ref() {
                            st.extras.push(s.clone());
                        }
                    }
                }
            }
        }
    });
}

pub struct PlanIter<I> {
    pub inner: I,
    pub n: u32,
    pub panic_at: Option<u16>,
    pub hint: Option<usize>,
    pub loose: Option<u16>,
}

impl<I> PlanIter<I> {
    pub fn new(inner: I, hint: Option<usize>, panic_at: Option<u16>) -> Self {
        PlanIter { inner, n: 0, panic_at, hint, loose: None }
    }
    pub fn loose(mut self, l: Option<u16>) -> Self {
        self.loose = l;
        self
    }
}

impl<I: Iterator> Iterator for PlanIter<I> {
    type Item = I::Item;
    fn next(&mut self) -> Option<I::Item> {
        let k = self.n;
        self.n += 1;
        fx_tick(k);
        if let Some(p) = self.panic_at {
            if p as u32 == k {
                std::panic::panic_any(Injected(p));
            }
        }
        self.inner.next()
    }
    fn size_hint(&self) -> (usize, Option<usize>) {
        match (self.hint, self.loose) {
            (Some(h), _) => (h, None),
            (None, Some(slack)) => (0, self.inner.size_hint().1.map(|u| u + slack as usize)),
            (None, None) => self.inner.size_hint(),
        }
    }
}

pub struct PiecesDisplay<'a>(pub &'a Pieces);

impl fmt::Display for PiecesDisplay<'_> {
    fn fmt(&self, f: &mut fmt::Formatter<'_>) -> fmt::Result {
        let n = self.0.pieces.len();
        for i in 0..=n {
            fx_tick(i as u32);
            if self.0.panic_at == Some(i as u16) {
                std::panic::panic_any(Injected(i as u16));
            }
            if self.0.err_at == Some(i as u16) {
                return Err(fmt::Error);
            }
            if i < n {
                let p = &self.0.pieces[i];
                let mut cs = p.chars();
                match (cs.next(), cs.next()) {
                    // single characters go through Formatter::write_char, like a `char` argument or a fill does
                    (Some(c), None) => std::fmt::Write::write_char(f, c)?,
                    _ => f.write_str(p)?,
                }
            }
        }
        Ok(())
    }
}

/// A user type that goes through the generic arm of `to_lean_string`.
pub struct UserStruct<'a>(pub &'a str);
impl fmt::Display for UserStruct<'_> {
    fn fmt(&self, f: &mut fmt::Formatter<'_>) -> fmt::Result {
        write!(f, "{}", self.0)
    }
}

pub fn retain_pred(spec: RetainSpec) -> impl FnMut(char) -> bool {
    let mut i: u32 = 0;
    move |_c| {
        let k = i;
        i += 1;
        fx_tick(k);
        if let Some(p) = spec.panic_at {
            if p as u32 == k {
                std::panic::panic_any(Injected(p));
            }
        }
        (spec.mask >> (k % 64)) & 1 == 1
    }
}
