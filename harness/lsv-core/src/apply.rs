//! Applying one operation to the real LeanStrings and to the String model.

use crate::callbacks::*;
use crate::ir::*;
use crate::outcome::*;
use crate::shadow;
use crate::statics;
use crate::world::*;
use lean_string::{LeanString, ReserveError, ToLeanString, ToLeanStringError};
use std::borrow::Cow;
use std::fmt::Write as _;
use std::panic::{AssertUnwindSafe, catch_unwind};
use std::str::FromStr;

/// Arguments resolved against the state before the step.
#[derive(Clone, Debug, Default)]
pub struct Resolved {
    pub idx: usize,
    pub size: usize,
    pub text: String,
}

fn res_unit(r: Result<(), ReserveError>) -> Outcome {
    match r {
        Ok(()) => Outcome::Ok(Ret::Unit),
        Err(ReserveError) => Outcome::ReserveErr,
    }
}

fn tls_outcome(r: Result<LeanString, ToLeanStringError>) -> Result<LeanString, Outcome> {
    match r {
        Ok(v) => Ok(v),
        Err(ToLeanStringError::Reserve(_)) => Err(Outcome::ReserveErr),
        Err(ToLeanStringError::Fmt(_)) => Err(Outcome::FmtErr),
    }
}

macro_rules! int_dispatch {
    ($ty:expr, $nonzero:expr, $v:expr, |$x:ident| $body:expr) => {{
        let neg = $v.starts_with('-');
        let wide_i: i128 = if neg { $v.parse::<i128>().unwrap_or(-1) } else { $v.parse::<u128>().unwrap_or(0) as i128 };
        macro_rules! one {
            ($t:ty) => {{
                let prim = wide_i as $t;
                if $nonzero {
                    let $x = core::num::NonZero::<$t>::new(prim).unwrap_or(core::num::NonZero::<$t>::new(1).unwrap());
                    $body
                } else {
                    let $x = prim;
                    $body
                }
            }};
        }
        match $ty {
            IntTy::I8 => one!(i8),
            IntTy::U8 => one!(u8),
            IntTy::I16 => one!(i16),
            IntTy::U16 => one!(u16),
            IntTy::I32 => one!(i32),
            IntTy::U32 => one!(u32),
            IntTy::I64 => one!(i64),
            IntTy::U64 => one!(u64),
            IntTy::I128 => one!(i128),
            IntTy::U128 => one!(u128),
            IntTy::Isize => one!(isize),
            IntTy::Usize => one!(usize),
        }
    }};
}

/// write!(dst, spec, arg) for a fixed list of format specs (width, fill, alignment, precision, Debug)
pub fn write_spec<W: std::fmt::Write, A: std::fmt::Display + std::fmt::Debug>(w: &mut W, spec: u8, a: &A) -> std::fmt::Result {
    match spec % 10 {
        0 => write!(w, "{a}"),
        1 => write!(w, "{a:>12}"),
        2 => write!(w, "{a:<7}|"),
        3 => write!(w, "{a:*^31}"),
        4 => write!(w, "{a:.3}"),
        5 => write!(w, "{a:10.2}|"),
        6 => write!(w, "{a:?}"),
        7 => write!(w, "[{a:-<18.17}]"),
        8 => write!(w, "{a}{a:>3}"),
        _ => write!(w, "{a:#?}"),
    }
}

fn flat_chars(items: &[String]) -> Vec<char> {
    items.iter().flat_map(|s| s.chars()).collect()
}

impl World {
    pub fn ensure_live(&mut self, slot: Slot) {
        let i = slot as usize;
        if self.slots[i].is_none() {
            self.slots[i] = Some(LeanString::new());
            self.model[i] = Some(String::new());
        }
    }

    /// Resolve symbolic arguments against the model / current capacity.
    pub fn resolve(&mut self, op: &Op) -> Resolved {
        let mut r = Resolved::default();
        if let Some(slot) = op.mutated() {
            self.ensure_live(slot);
        }
        let st = |w: &World, slot: Slot| -> (usize, usize) {
            match (&w.model[slot as usize], &w.slots[slot as usize]) {
                (Some(m), Some(s)) => (m.len(), s.capacity()),
                _ => (0, 16),
            }
        };
        match op {
            Op::WithCapacity { n, .. } => r.size = resolve_size(*n, 0, 16),
            Op::Reserve { slot, n, .. } | Op::ShrinkTo { slot, n, .. } => {
                let (len, cap) = st(self, *slot);
                r.size = resolve_size(*n, len, cap);
            }
            Op::Add { slot, text } | Op::AddAssign { slot, text } | Op::PushStr { slot, text, .. } => {
                let (len, cap) = st(self, *slot);
                r.text = resolve_text(text, len, cap);
            }
            Op::InsertStr { slot, idx, text, .. } => {
                let (len, cap) = st(self, *slot);
                r.text = resolve_text(text, len, cap);
                r.idx = resolve_idx(*idx, self.model[*slot as usize].as_deref().unwrap_or(""));
            }
            Op::Remove { slot, idx, .. } | Op::Insert { slot, idx, .. } | Op::Truncate { slot, n: idx, .. } => {
                r.idx = resolve_idx(*idx, self.model[*slot as usize].as_deref().unwrap_or(""));
            }
            _ => {}
        }
        r
    }

    fn set(&mut self, slot: Slot, v: LeanString) {
        self.slots[slot as usize] = Some(v);
    }

    fn construct_real(&mut self, op: &Op, r: &Resolved) -> Result<LeanString, Outcome> {
        Ok(match op {
            Op::New { .. } => LeanString::new(),
            Op::Default { .. } => LeanString::default(),
            Op::FromText { via, text, .. } => match via {
                Via::Str => LeanString::from(text.as_str()),
                Via::String => {
                    if text.len() % 3 == 0 {
                        // an owned input whose capacity is larger than its text
                        let mut owned = String::with_capacity(text.len() + 37);
                        owned.push_str(text);
                        LeanString::from(owned)
                    } else {
                        LeanString::from(text.clone())
                    }
                }
                Via::RefString => LeanString::from(text),
                Via::BoxStr => LeanString::from(text.clone().into_boxed_str()),
                Via::CowB => LeanString::from(Cow::Borrowed(text.as_str())),
                Via::CowO => {
                    let mut owned = String::with_capacity(text.len() + (text.len() % 2) * 29);
                    owned.push_str(text);
                    LeanString::from(Cow::<str>::Owned(owned))
                }
                Via::Parse => LeanString::from_str(text).map_err(|_| Outcome::ReserveErr)?,
                Via::Utf8 => LeanString::from_utf8(text.as_bytes()).map_err(|_| Outcome::DecodeErr)?,
                Via::Utf8Unchecked => unsafe { LeanString::from_utf8_unchecked(text.as_bytes()) },
                Via::ToLeanString => text.to_lean_string(),
                Via::ToLeanStr => text.as_str().to_lean_string(),
                Via::ToLeanCow => Cow::Borrowed(text.as_str()).to_lean_string(),
                Via::ToLeanBox => text.clone().into_boxed_str().to_lean_string(),
                Via::TryToLeanString => tls_outcome(text.try_to_lean_string())?,
            },
            Op::FromChar { ch, via, .. } => match via {
                CharVia::From => LeanString::from(*ch),
                CharVia::ToLean => ch.to_lean_string(),
                CharVia::TryToLean => tls_outcome(ch.try_to_lean_string())?,
            },
            Op::FromBool { v, try_, .. } => {
                if *try_ {
                    tls_outcome(v.try_to_lean_string())?
                } else {
                    v.to_lean_string()
                }
            }
            Op::FromInt { ty, nonzero, v, try_, .. } => {
                let r: Result<LeanString, ToLeanStringError> = int_dispatch!(*ty, *nonzero, v, |x| {
                    if *try_ { x.try_to_lean_string() } else { Ok(x.to_lean_string()) }
                });
                tls_outcome(r)?
            }
            Op::FromStatic { k, .. } => LeanString::from_static_str(statics::pool().get(*k)),
            Op::WithCapacity { try_, .. } => {
                if *try_ {
                    LeanString::try_with_capacity(r.size).map_err(|_| Outcome::ReserveErr)?
                } else {
                    LeanString::with_capacity(r.size)
                }
            }
            Op::FromUtf8Lossy { hex, .. } => LeanString::from_utf8_lossy(&hex_decode(hex)),
            Op::FromUtf16 { units, lossy, .. } => {
                // every other input at an address that is 2-aligned only (a sub-slice of a Vec), as callers may pass
                let shifted: Vec<u16>;
                let units: &[u16] = if units.len() % 2 == 1 {
                    shifted = std::iter::once(0x2au16).chain(units.iter().copied()).collect();
                    &shifted[1..]
                } else {
                    units
                };
                if *lossy {
                    LeanString::from_utf16_lossy(units)
                } else {
                    LeanString::from_utf16(units).map_err(|_| Outcome::DecodeErr)?
                }
            }
            Op::Collect { it, .. } => self.collect_real(it),
            Op::Display { d, try_, .. } => {
                let disp = PiecesDisplay(d);
                if *try_ {
                    tls_outcome(disp.try_to_lean_string())?
                } else {
                    disp.to_lean_string()
                }
            }
            Op::Clone { from, via, .. } => {
                self.ensure_live(*from);
                let src = self.slots[*from as usize].as_ref().unwrap();
                match via {
                    CloneVia::Clone => src.clone(),
                    CloneVia::FromRef => LeanString::from(src),
                    CloneVia::ToLean => src.to_lean_string(),
                    CloneVia::TryToLean => tls_outcome(src.try_to_lean_string())?,
                }
            }
            _ => unreachable!("not a constructor"),
        })
    }

    fn lean_items(&self, it: &IterSpec) -> Vec<LeanString> {
        match it.kind {
            IterKind::LeanSlots => it
                .slots
                .iter()
                .map(|&s| self.slots[s as usize % SLOTS].clone().unwrap_or_default())
                .collect(),
            _ => it.items.iter().map(|s| LeanString::from(s.as_str())).collect(),
        }
    }

    fn model_items(&self, it: &IterSpec) -> Vec<String> {
        match it.kind {
            IterKind::LeanSlots => {
                it.slots.iter().map(|&s| self.model[s as usize % SLOTS].clone().unwrap_or_default()).collect()
            }
            _ => it.items.clone(),
        }
    }

    fn collect_real(&self, it: &IterSpec) -> LeanString {
        let (h, p, l) = (it.hint, it.panic_at, it.loose);
        match it.kind {
            IterKind::Char => PlanIter::new(flat_chars(&it.items).into_iter(), h, p).loose(l).upper(it.upper).collect(),
            IterKind::RefChar => {
                let v = flat_chars(&it.items);
                PlanIter::new(v.iter(), h, p).loose(l).upper(it.upper).collect()
            }
            IterKind::Str => PlanIter::new(it.items.iter().map(|s| s.as_str()), h, p).loose(l).upper(it.upper).collect(),
            IterKind::String => PlanIter::new(it.items.clone().into_iter(), h, p).loose(l).upper(it.upper).collect(),
            IterKind::BoxStr => PlanIter::new(it.items.iter().map(|s| s.clone().into_boxed_str()), h, p).loose(l).upper(it.upper).collect(),
            IterKind::CowB => PlanIter::new(it.items.iter().map(|s| Cow::Borrowed(s.as_str())), h, p).loose(l).upper(it.upper).collect(),
            IterKind::CowO => PlanIter::new(it.items.iter().map(|s| Cow::<str>::Owned(s.clone())), h, p).loose(l).upper(it.upper).collect(),
            IterKind::Lean | IterKind::LeanSlots => {
                let items = self.lean_items(it);
                shadow::with(|hp| hp.events.clear());
                PlanIter::new(items.into_iter(), h, p).loose(l).upper(it.upper).collect()
            }
        }
    }

    fn extend_real(&mut self, slot: Slot, it: &IterSpec) {
        let (h, p, l, u) = (it.hint, it.panic_at, it.loose, it.upper);
        // every item exists before the call: whatever the global allocator is asked for during `extend` itself is
        // the crate's doing (a temporary String per item, say)
        let items = if matches!(it.kind, IterKind::Lean | IterKind::LeanSlots) { self.lean_items(it) } else { vec![] };
        let chars: Vec<char> = if matches!(it.kind, IterKind::Char | IterKind::RefChar) { flat_chars(&it.items) } else { vec![] };
        // owned items whose own capacity exceeds their text (every other one)
        let strings: Vec<String> = if matches!(it.kind, IterKind::String) {
            it.items
                .iter()
                .enumerate()
                .map(|(i, t)| {
                    let mut s = String::with_capacity(t.len() + (i % 2) * 57);
                    s.push_str(t);
                    s
                })
                .collect()
        } else {
            vec![]
        };
        let boxes: Vec<Box<str>> = if matches!(it.kind, IterKind::BoxStr) { it.items.iter().map(|s| s.clone().into_boxed_str()).collect() } else { vec![] };
        let cows: Vec<Cow<'_, str>> = if matches!(it.kind, IterKind::CowO) { it.items.iter().map(|s| Cow::<str>::Owned(s.clone())).collect() } else { vec![] };
        shadow::with(|hp| hp.events.clear());
        self.last_extend_allocs = None;
        let s = self.slots[slot as usize].as_mut().unwrap();
        let g0 = shadow::global_allocs();
        match it.kind {
            IterKind::Char => s.extend(PlanIter::new(chars.into_iter(), h, p).loose(l).upper(u)),
            IterKind::RefChar => s.extend(PlanIter::new(chars.iter(), h, p).loose(l).upper(u)),
            IterKind::Str => s.extend(PlanIter::new(it.items.iter().map(|s| s.as_str()), h, p).loose(l).upper(u)),
            IterKind::String => s.extend(PlanIter::new(strings.into_iter(), h, p).loose(l).upper(u)),
            IterKind::BoxStr => s.extend(PlanIter::new(boxes.into_iter(), h, p).loose(l).upper(u)),
            IterKind::CowB => s.extend(PlanIter::new(it.items.iter().map(|s| Cow::Borrowed(s.as_str())), h, p).loose(l).upper(u)),
            IterKind::CowO => s.extend(PlanIter::new(cows.into_iter(), h, p).loose(l).upper(u)),
            IterKind::Lean | IterKind::LeanSlots => s.extend(PlanIter::new(items.into_iter(), h, p).loose(l).upper(u)),
        }
        // (reached only when `extend` returned normally)
        self.last_extend_allocs = Some(shadow::global_allocs() - g0);
    }

    /// Apply `op` to the real strings. Panics are caught and classified.
    pub fn apply_real(&mut self, op: &Op, r: &Resolved) -> Outcome {
        shadow::with(|h| h.events.clear());
        // operations during which the harness allocates nothing itself: any global-allocator request in this
        // window is made by the crate outside its buffer management (e.g. a temporary String)
        let measurable = matches!(
            op,
            Op::Push { .. }
                | Op::PushStr { .. }
                | Op::Pop { .. }
                | Op::Remove { .. }
                | Op::Insert { .. }
                | Op::InsertStr { .. }
                | Op::Truncate { .. }
                | Op::Clear { .. }
                | Op::Reserve { .. }
                | Op::ShrinkTo { .. }
                | Op::ShrinkToFit { .. }
                | Op::AddAssign { .. }
                | Op::CloneFrom { .. }
                | Op::Clone { .. }
                | Op::FromStatic { .. }
        );
        // a callback that acts on another handle while the operation runs
        let fx: Option<Fx> = match op {
            Op::Retain { r, .. } => r.fx,
            Op::Extend { it, .. } => it.fx,
            Op::Write { d, .. } => d.fx,
            _ => None,
        };
        let fx = fx.filter(|f| Some(f.slot % SLOTS as u8) != op.mutated().map(|t| t % SLOTS as u8));
        if let Some(f) = fx {
            let p = self.slots.slot_ptr(f.slot as usize % SLOTS);
            fx_arm(f.at, f.drop, p);
        }
        // ... or another thread that acts on another handle at one of the crate's allocator calls / buffer accesses
        let intr = if fx.is_none() { self.intrude.take() } else { None };
        let intr = intr.filter(|x| {
            let s = x.slot % SLOTS as u8;
            !op.touches().iter().any(|t| t % SLOTS as u8 == s) && self.slots[s as usize].is_some()
        });
        if let Some(x) = intr {
            let p = self.slots.slot_ptr(x.slot as usize % SLOTS);
            crate::callbacks::hook_fx_arm(x.at, x.drop, p);
        }
        let g0 = shadow::global_allocs();
        let res = catch_unwind(AssertUnwindSafe(|| self.apply_real_inner(op, r)));
        let g = shadow::global_allocs() - g0;
        self.last_fx = None;
        if let Some(f) = fx {
            if fx_disarm() {
                self.last_fx = Some((f.slot % SLOTS as u8, f.drop));
            }
        }
        if let Some(x) = intr {
            if crate::callbacks::hook_fx_disarm() {
                self.last_fx = Some((x.slot % SLOTS as u8, x.drop));
            }
        }
        self.last_other_allocs = None;
        match res {
            Ok(o) => {
                if measurable && matches!(o, Outcome::Ok(_)) {
                    self.last_other_allocs = Some(g);
                }
                if matches!(op, Op::Extend { .. }) && matches!(o, Outcome::Ok(_)) {
                    self.last_other_allocs = self.last_extend_allocs.take();
                }
                o
            }
            Err(p) => classify_panic(p, false),
        }
    }

    fn apply_real_inner(&mut self, op: &Op, r: &Resolved) -> Outcome {
        if op.is_constructor() {
            let slot = op.first_target();
            return match self.construct_real(op, r) {
                Ok(v) => {
                    self.set(slot, v);
                    Outcome::Ok(Ret::Unit)
                }
                Err(o) => o,
            };
        }
        match op {
            Op::Drop { slot } => {
                self.slots[*slot as usize] = None;
                Outcome::Ok(Ret::Unit)
            }
            Op::CloneFrom { slot, from } => {
                self.ensure_live(*from);
                self.ensure_live(*slot);
                if slot != from {
                    let (a, b) = (*slot as usize, *from as usize);
                    let src: *const LeanString = self.slots[b].as_ref().unwrap();
                    // distinct slots: no aliasing between the &mut and the &
                    let dst = self.slots[a].as_mut().unwrap();
                    dst.clone_from(unsafe { &*src });
                }
                Outcome::Ok(Ret::Unit)
            }
            Op::Take { slot, from } => {
                self.ensure_live(*from);
                let v = std::mem::take(self.slots[*from as usize].as_mut().unwrap());
                self.slots[*slot as usize] = Some(v);
                Outcome::Ok(Ret::Unit)
            }
            Op::Swap { a, b } => {
                self.ensure_live(*a);
                self.ensure_live(*b);
                self.slots.swap(*a as usize, *b as usize);
                Outcome::Ok(Ret::Unit)
            }
            Op::OptionRoundTrip { slot } => {
                self.ensure_live(*slot);
                let v = self.slots[*slot as usize].take().unwrap();
                let o = std::hint::black_box(Some(v));
                let some = o.is_some();
                match o {
                    Some(v) => {
                        self.slots[*slot as usize] = Some(std::hint::black_box(v));
                        Outcome::Ok(Ret::Bool(some))
                    }
                    None => Outcome::Ok(Ret::Bool(false)),
                }
            }
            Op::Add { slot, .. } => {
                let v = self.slots[*slot as usize].take().unwrap();
                // if `+` panics the value is dropped by unwinding, as for a String
                let v = v + r.text.as_str();
                self.slots[*slot as usize] = Some(v);
                Outcome::Ok(Ret::Unit)
            }
            Op::Compare { a, b } => {
                self.ensure_live(*a);
                self.ensure_live(*b);
                Outcome::Ok(Ret::Unit)
            }
            Op::WriteArg { slot, from, spec } => {
                self.ensure_live(*from);
                // the argument is a handle of its own (a clone when it is the target itself)
                let arg = self.slots[*from as usize].clone().unwrap();
                let dst = self.slots[*slot as usize].as_mut().unwrap();
                match write_spec(dst, *spec, &arg) {
                    Ok(()) => Outcome::Ok(Ret::Unit),
                    Err(_) => Outcome::FmtErr,
                }
            }
            Op::Extend { slot, it } => {
                self.extend_real(*slot, it);
                Outcome::Ok(Ret::Unit)
            }
            _ => {
                let slot = op.mutated().unwrap();
                let s = self.slots[slot as usize].as_mut().unwrap();
                match op {
                    Op::Push { ch, try_, .. } => {
                        if *try_ {
                            res_unit(s.try_push(*ch))
                        } else {
                            s.push(*ch);
                            Outcome::Ok(Ret::Unit)
                        }
                    }
                    Op::PushStr { try_, .. } => {
                        if *try_ {
                            res_unit(s.try_push_str(&r.text))
                        } else {
                            s.push_str(&r.text);
                            Outcome::Ok(Ret::Unit)
                        }
                    }
                    Op::Pop { try_, .. } => {
                        if *try_ {
                            match s.try_pop() {
                                Ok(c) => Outcome::Ok(Ret::OptChar(c)),
                                Err(_) => Outcome::ReserveErr,
                            }
                        } else {
                            Outcome::Ok(Ret::OptChar(s.pop()))
                        }
                    }
                    Op::Remove { try_, .. } => {
                        if *try_ {
                            match s.try_remove(r.idx) {
                                Ok(c) => Outcome::Ok(Ret::Char(c)),
                                Err(_) => Outcome::ReserveErr,
                            }
                        } else {
                            Outcome::Ok(Ret::Char(s.remove(r.idx)))
                        }
                    }
                    Op::Insert { ch, try_, .. } => {
                        if *try_ {
                            res_unit(s.try_insert(r.idx, *ch))
                        } else {
                            s.insert(r.idx, *ch);
                            Outcome::Ok(Ret::Unit)
                        }
                    }
                    Op::InsertStr { try_, .. } => {
                        if *try_ {
                            res_unit(s.try_insert_str(r.idx, &r.text))
                        } else {
                            s.insert_str(r.idx, &r.text);
                            Outcome::Ok(Ret::Unit)
                        }
                    }
                    Op::Truncate { try_, .. } => {
                        if *try_ {
                            res_unit(s.try_truncate(r.idx))
                        } else {
                            s.truncate(r.idx);
                            Outcome::Ok(Ret::Unit)
                        }
                    }
                    Op::Clear { .. } => {
                        s.clear();
                        Outcome::Ok(Ret::Unit)
                    }
                    Op::Retain { r: spec, try_, .. } => {
                        if *try_ {
                            res_unit(s.try_retain(retain_pred(*spec)))
                        } else {
                            s.retain(retain_pred(*spec));
                            Outcome::Ok(Ret::Unit)
                        }
                    }
                    Op::Reserve { try_, .. } => {
                        if *try_ {
                            res_unit(s.try_reserve(r.size))
                        } else {
                            s.reserve(r.size);
                            Outcome::Ok(Ret::Unit)
                        }
                    }
                    Op::ShrinkTo { try_, .. } => {
                        if *try_ {
                            res_unit(s.try_shrink_to(r.size))
                        } else {
                            s.shrink_to(r.size);
                            Outcome::Ok(Ret::Unit)
                        }
                    }
                    Op::ShrinkToFit { try_, .. } => {
                        if *try_ {
                            res_unit(s.try_shrink_to_fit())
                        } else {
                            s.shrink_to_fit();
                            Outcome::Ok(Ret::Unit)
                        }
                    }
                    Op::AddAssign { .. } => {
                        *s += r.text.as_str();
                        Outcome::Ok(Ret::Unit)
                    }
                    Op::Write { d, .. } => match write!(s, "{}", PiecesDisplay(d)) {
                        Ok(()) => Outcome::Ok(Ret::Unit),
                        Err(_) => Outcome::FmtErr,
                    },
                    _ => unreachable!(),
                }
            }
        }
    }

    // ------------------------------------------------------------------ model

    fn construct_model(&mut self, op: &Op) -> Result<String, Outcome> {
        Ok(match op {
            Op::New { .. } | Op::Default { .. } | Op::WithCapacity { .. } => String::new(),
            Op::FromText { text, .. } => text.clone(),
            Op::FromChar { ch, .. } => ch.to_string(),
            Op::FromBool { v, .. } => v.to_string(),
            Op::FromInt { ty, nonzero, v, .. } => int_dispatch!(*ty, *nonzero, v, |x| x.to_string()),
            Op::FromStatic { k, .. } => statics::pool().pristine[*k as usize % statics::pool().pristine.len()].clone(),
            Op::FromUtf8Lossy { hex, .. } => String::from_utf8_lossy(&hex_decode(hex)).into_owned(),
            Op::FromUtf16 { units, lossy, .. } => {
                if *lossy {
                    String::from_utf16_lossy(units)
                } else {
                    String::from_utf16(units).map_err(|_| Outcome::DecodeErr)?
                }
            }
            Op::Collect { it, .. } => {
                let p = it.panic_at;
                match it.kind {
                    IterKind::Char | IterKind::RefChar => PlanIter::new(flat_chars(&it.items).into_iter(), None, p).collect(),
                    _ => PlanIter::new(self.model_items(it).into_iter(), None, p).collect(),
                }
            }
            Op::Display { d, try_, .. } => {
                if *try_ {
                    let mut s = String::new();
                    match write!(s, "{}", PiecesDisplay(d)) {
                        Ok(()) => s,
                        Err(_) => return Err(Outcome::FmtErr),
                    }
                } else {
                    PiecesDisplay(d).to_string()
                }
            }
            Op::Clone { from, .. } => self.model[*from as usize].clone().unwrap_or_default(),
            _ => unreachable!(),
        })
    }

    /// Apply `op` to the model.
    pub fn apply_model(&mut self, op: &Op, r: &Resolved) -> Outcome {
        let res = catch_unwind(AssertUnwindSafe(|| self.apply_model_inner(op, r)));
        if let Some((slot, true)) = self.last_fx {
            // the callback dropped this handle during the real operation (items cloned from it beforehand keep
            // their text, so the model forgets the handle only after the call)
            self.model[slot as usize] = None;
        }
        match res {
            Ok(o) => o,
            Err(p) => classify_panic(p, true),
        }
    }

    fn apply_model_inner(&mut self, op: &Op, r: &Resolved) -> Outcome {
        if op.is_constructor() {
            let slot = op.targets()[0] as usize;
            return match self.construct_model(op) {
                Ok(v) => {
                    self.model[slot] = Some(v);
                    Outcome::Ok(Ret::Unit)
                }
                Err(o) => o,
            };
        }
        match op {
            Op::Drop { slot } => {
                self.model[*slot as usize] = None;
                Outcome::Ok(Ret::Unit)
            }
            Op::CloneFrom { slot, from } => {
                if slot != from {
                    let v = self.model[*from as usize].clone();
                    self.model[*slot as usize] = v;
                }
                Outcome::Ok(Ret::Unit)
            }
            Op::Take { slot, from } => {
                let v = std::mem::take(self.model[*from as usize].as_mut().unwrap());
                self.model[*slot as usize] = Some(v);
                Outcome::Ok(Ret::Unit)
            }
            Op::Swap { a, b } => {
                self.model.swap(*a as usize, *b as usize);
                Outcome::Ok(Ret::Unit)
            }
            Op::OptionRoundTrip { .. } => Outcome::Ok(Ret::Bool(true)),
            Op::Add { slot, .. } => {
                let v = self.model[*slot as usize].take().unwrap();
                self.model[*slot as usize] = Some(v + r.text.as_str());
                Outcome::Ok(Ret::Unit)
            }
            Op::Compare { .. } => Outcome::Ok(Ret::Unit),
            Op::WriteArg { slot, from, spec } => {
                let arg = self.model[*from as usize].clone().unwrap_or_default();
                let dst = self.model[*slot as usize].as_mut().unwrap();
                match write_spec(dst, *spec, &arg) {
                    Ok(()) => Outcome::Ok(Ret::Unit),
                    Err(_) => Outcome::FmtErr,
                }
            }
            Op::Extend { slot, it } => {
                let p = it.panic_at;
                let items = self.model_items(it);
                let m = self.model[*slot as usize].as_mut().unwrap();
                match it.kind {
                    IterKind::Char | IterKind::RefChar => m.extend(PlanIter::new(flat_chars(&it.items).into_iter(), None, p)),
                    _ => m.extend(PlanIter::new(items.into_iter(), None, p)),
                }
                Outcome::Ok(Ret::Unit)
            }
            _ => {
                let slot = op.mutated().unwrap();
                let m = self.model[slot as usize].as_mut().unwrap();
                match op {
                    Op::Push { ch, .. } => {
                        m.push(*ch);
                        Outcome::Ok(Ret::Unit)
                    }
                    Op::PushStr { .. } | Op::AddAssign { .. } => {
                        m.push_str(&r.text);
                        Outcome::Ok(Ret::Unit)
                    }
                    Op::Pop { .. } => Outcome::Ok(Ret::OptChar(m.pop())),
                    Op::Remove { .. } => Outcome::Ok(Ret::Char(m.remove(r.idx))),
                    Op::Insert { ch, .. } => {
                        m.insert(r.idx, *ch);
                        Outcome::Ok(Ret::Unit)
                    }
                    Op::InsertStr { .. } => {
                        m.insert_str(r.idx, &r.text);
                        Outcome::Ok(Ret::Unit)
                    }
                    Op::Truncate { .. } => {
                        m.truncate(r.idx);
                        Outcome::Ok(Ret::Unit)
                    }
                    Op::Clear { .. } => {
                        m.clear();
                        Outcome::Ok(Ret::Unit)
                    }
                    Op::Retain { r: spec, .. } => {
                        m.retain(retain_pred(*spec));
                        Outcome::Ok(Ret::Unit)
                    }
                    Op::Reserve { .. } | Op::ShrinkTo { .. } | Op::ShrinkToFit { .. } => Outcome::Ok(Ret::Unit),
                    Op::Write { d, .. } => match write!(m, "{}", PiecesDisplay(d)) {
                        Ok(()) => Outcome::Ok(Ret::Unit),
                        Err(_) => Outcome::FmtErr,
                    },
                    _ => unreachable!(),
                }
            }
        }
    }
}
