//! lsv — command line of the history explorer and value engines.
//!
//!   lsv check <ID> --tier quick|thorough     supervisor: runs `lsv run` in a child, triages crashes
//!   lsv run   <ID> --tier quick|thorough     the engine (16 threads)
//!   lsv replay <file>                        re-executes one saved case, bypassing the generators

use lsv_core::runner::Tier;
use std::process::{Command, ExitCode};

fn arg_after(args: &[String], flag: &str) -> Option<String> {
    args.iter().position(|a| a == flag).and_then(|i| args.get(i + 1).cloned())
}

fn seed() -> u64 {
    std::env::var("VERIF_SEED").ok().and_then(|s| s.parse::<u64>().ok()).unwrap_or(0)
}

fn tier_of(args: &[String]) -> Tier {
    let t = arg_after(args, "--tier").or_else(|| std::env::var("VERIF_TIER").ok()).unwrap_or_else(|| "quick".into());
    if t == "thorough" { Tier::Thorough } else { Tier::Quick }
}

fn main() -> ExitCode {
    let args: Vec<String> = std::env::args().collect();
    if args.len() < 3 {
        eprintln!("usage: lsv check|run <ID> [--tier quick|thorough] | lsv replay <file>");
        return ExitCode::from(2);
    }
    match args[1].as_str() {
        "run" => {
            let tier = tier_of(&args);
            match lsv_core::checks::run_check(&args[2], tier, seed()) {
                Some(v) => ExitCode::from(v.exit_code as u8),
                None => {
                    eprintln!("unknown property {}", args[2]);
                    ExitCode::from(2)
                }
            }
        }
        "check" => supervise(&args[2], tier_of(&args)),
        "digest" => {
            let seed = arg_after(&args, "--seed").and_then(|s| s.parse().ok()).unwrap_or(0);
            let count = arg_after(&args, "--count").and_then(|s| s.parse().ok()).unwrap_or(1000);
            let out = arg_after(&args, "--out").unwrap_or_else(|| "/dev/stdout".into());
            let dump = arg_after(&args, "--dump-index").and_then(|s| s.parse().ok());
            ExitCode::from(lsv_core::checks::matrix::digest_command(seed, count, &out, dump) as u8)
        }
        "decode" => {
            // raw fuzz input -> replay document in the IR format
            let data = std::fs::read(&args[2]).unwrap_or_default();
            let h = lsv_core::generate::bytes::decode_history(&data, 48);
            let prop = args.get(3).cloned().unwrap_or_else(|| "C03".into());
            println!("{}", serde_json::json!({"property": prop, "engine": "fuzz_history", "case": lsv_core::checks::common::history_value(&h),
                "failure": {"oracle": format!("{prop}.sanitizer"), "step": 0, "detail": "AddressSanitizer report or crash under the fuzz target"}}));
            ExitCode::SUCCESS
        }
        "replay" => {
            let code = lsv_core::checks::replay::replay_file(&args[2]);
            ExitCode::from(code as u8)
        }
        _ => ExitCode::from(2),
    }
}

fn supervise(prop: &str, tier: Tier) -> ExitCode {
    let exe = std::env::current_exe().expect("current_exe");
    // stale records of an earlier (crashed) run must not be mistaken for this run's cases
    if let Ok(rd) = std::fs::read_dir(lsv_core::runner::verif_dir().join("work").join(prop)) {
        for e in rd.flatten() {
            if e.file_name().to_string_lossy().starts_with("current-") {
                let _ = std::fs::remove_file(e.path());
            }
        }
    }
    let skip_file = lsv_core::runner::verif_dir().join("work").join(prop).join("skip.txt");
    let _ = std::fs::remove_file(&skip_file);
    let mut crashes_skipped = 0u32;
    loop {
        let code = supervise_once(prop, tier, &exe, &skip_file, crashes_skipped);
        match code {
            3 if crashes_skipped < 6 => {
                crashes_skipped += 1;
                eprintln!("note: property={prop}: the engine crashed on a recorded history (crashes are reported by the checks of C01/C03/C05/C06/C07/C18/C20); that history is excluded and the search continues ({crashes_skipped} excluded so far)");
            }
            3 => {
                eprintln!("INCONCLUSIVE property={prop}: the engine keeps crashing on recorded histories ({crashes_skipped} excluded); crashes are reported by the checks of C01/C03/C05/C06/C07/C18/C20, not by this one");
                return ExitCode::from(2);
            }
            0 if crashes_skipped > 0 => {
                eprintln!("INCONCLUSIVE property={prop}: no violation of this property among the cases that could be run, but {crashes_skipped} history(ies) crashed the engine and were excluded; crashes are reported by the checks of C01/C03/C05/C06/C07/C18/C20, not by this one");
                return ExitCode::from(2);
            }
            c => return ExitCode::from(c),
        }
    }
}

fn supervise_once(prop: &str, tier: Tier, exe: &std::path::Path, skip_file: &std::path::Path, crashes_skipped: u32) -> u8 {
    let timeout_s: u64 = std::env::var("LSV_TIMEOUT_S").ok().and_then(|s| s.parse().ok()).unwrap_or(match tier {
        Tier::Quick => 1500,
        Tier::Thorough => 4 * 3600,
    });
    if let Ok(rd) = std::fs::read_dir(lsv_core::runner::verif_dir().join("work").join(prop)) {
        for e in rd.flatten() {
            if e.file_name().to_string_lossy().starts_with("current-") {
                let _ = std::fs::remove_file(e.path());
            }
        }
    }
    let mut cmd = Command::new(exe);
    cmd.args(["run", prop, "--tier", tier.name()]);
    if crashes_skipped > 0 {
        cmd.env("LSV_SKIP_FILE", skip_file);
    }
    let mut child = match cmd.spawn() {
        Ok(c) => c,
        Err(e) => {
            eprintln!("cannot spawn engine: {e}");
            return 2;
        }
    };
    let t0 = std::time::Instant::now();
    let status = loop {
        match child.try_wait() {
            Ok(Some(st)) => break st,
            Ok(None) => {
                if t0.elapsed().as_secs() > timeout_s {
                    let _ = child.kill();
                    let _ = child.wait();
                    eprintln!("INCONCLUSIVE property={prop}: engine exceeded {timeout_s}s watchdog (not a violation)");
                    return 2;
                }
                std::thread::sleep(std::time::Duration::from_millis(50));
            }
            Err(e) => {
                eprintln!("wait failed: {e}");
                return 2;
            }
        }
    };
    match status.code() {
        Some(c) => c as u8,
        None => {
            // died on a signal: triage the recorded current cases
            lsv_core::checks::replay::triage_crash(prop, tier, seed(), exe) as u8
        }
    }
}
