#![no_main]
//! bytes -> C16 differential (UTF-8, and reinterpreted as u16 units, UTF-16) and C19-free text routes.
use libfuzzer_sys::fuzz_target;
use std::sync::Once;

static INIT: Once = Once::new();

fuzz_target!(|data: &[u8]| {
    INIT.call_once(|| {
        lsv_core::shadow::install();
        lsv_core::outcome::silence_panics();
    });
    if let Err(d) = lsv_core::checks::values::fuzz_decode_case(data) {
        let dir = std::env::var("LSV_FUZZ_REPLAYS").unwrap_or_else(|_| "/verif/replays".into());
        let _ = std::fs::create_dir_all(&dir);
        let doc = serde_json::json!({"property": "C16", "engine": "fuzz_decode", "case": {"kind": "bytes", "hex": lsv_core::ir::hex_encode(data)},
            "failure": {"oracle": "C16.decode", "step": 0, "detail": d}});
        let path = format!("{dir}/fuzz-C16-{:016x}.json", lsv_core::checks::common::digest(&data));
        let _ = std::fs::write(&path, serde_json::to_vec_pretty(&doc).unwrap());
        eprintln!("FUZZ-FAILURE clause=C16.decode replay={path} detail={d}");
        std::process::abort();
    }
});
