#![no_main]
//! bytes -> history IR -> the lsv executor with every oracle inside the target.
use libfuzzer_sys::fuzz_target;
use std::sync::Once;

static INIT: Once = Once::new();

fuzz_target!(|data: &[u8]| {
    INIT.call_once(|| {
        lsv_core::history::assert_layout();
        lsv_core::shadow::install();
        lsv_core::outcome::silence_panics();
        let _ = lsv_core::statics::pool();
    });
    let h = lsv_core::generate::bytes::decode_history(data, 48);
    let res = lsv_core::history::run_history(&h);
    if let Some((step, f)) = res.failures.first() {
        // write the replay in the IR format, then abort so that libFuzzer keeps the input
        let dir = std::env::var("LSV_FUZZ_REPLAYS").unwrap_or_else(|_| "/verif/replays".into());
        let _ = std::fs::create_dir_all(&dir);
        let case = lsv_core::checks::common::history_value(&h);
        let doc = serde_json::json!({"property": &f.clause[..3], "engine": "fuzz_history", "case": case,
            "failure": {"oracle": f.clause, "step": step, "detail": f.detail}});
        let digest = lsv_core::checks::common::digest(&h);
        let path = format!("{dir}/fuzz-{}-{digest:016x}.json", &f.clause[..3]);
        let _ = std::fs::write(&path, serde_json::to_vec_pretty(&doc).unwrap());
        eprintln!("FUZZ-FAILURE clause={} step={} replay={} detail={}", f.clause, step, path, f.detail);
        std::process::abort();
    }
});
