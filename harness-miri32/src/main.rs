//! lsv32 — supplementary engine for the code that only exists on 32-bit targets (length stored in the
//! heap buffer for strings above 2^24-2 bytes, layout switch in realloc). Runs under Miri with
//! `--target i686-unknown-linux-gnu`: proptest-generated histories over *big* strings, String model
//! for the values, Miri for memory safety (use-after-free, bad free, leak at exit).
//!
//!   lsv32 <seed> <cases>      prints `CASE <n> <ops>` before each history; exit != 0 or a Miri report = failure
//!   lsv32 --case '<ops>'      re-runs one printed history

use lean_string::LeanString;
use lean_string::verif_hooks::{Hooks, Note, install};
use proptest::collection::vec;
use proptest::prelude::*;
use proptest::strategy::ValueTree;
use proptest::test_runner::{Config, RngAlgorithm, TestRng, TestRunner};
use std::alloc::Layout;
use std::sync::atomic::{AtomicUsize, Ordering};

const EDGE: usize = (1 << 24) - 2; // largest length stored in the handle on 32-bit
const SLOTS: usize = 3;

static FAIL_IN: AtomicUsize = AtomicUsize::new(usize::MAX);
fn should_fail() -> bool {
    let v = FAIL_IN.load(Ordering::Relaxed);
    if v == usize::MAX {
        return false;
    }
    if v == 0 {
        FAIL_IN.store(usize::MAX, Ordering::Relaxed);
        true
    } else {
        FAIL_IN.store(v - 1, Ordering::Relaxed);
        false
    }
}
unsafe fn h_alloc(l: Layout) -> *mut u8 {
    if should_fail() { std::ptr::null_mut() } else { unsafe { std::alloc::alloc(l) } }
}
unsafe fn h_realloc(p: *mut u8, l: Layout, n: usize) -> *mut u8 {
    if should_fail() { std::ptr::null_mut() } else { unsafe { std::alloc::realloc(p, l, n) } }
}
unsafe fn h_dealloc(p: *mut u8, l: Layout) {
    unsafe { std::alloc::dealloc(p, l) }
}
fn h_note(_: Note, _: *const u8, _: usize) {}
static HOOKS: Hooks = Hooks { alloc: h_alloc, realloc: h_realloc, dealloc: h_dealloc, note: h_note };

#[derive(Clone, Debug, PartialEq)]
enum Op {
    /// text of EDGE + d bytes
    FromBig(u8, i8),
    /// with_capacity(EDGE + d) then a short text
    CapBig(u8, i8),
    Small(u8, u8),
    Clone(u8, u8),
    Drop(u8),
    /// truncate to len - k
    TruncBy(u8, u16, bool),
    /// truncate to k bytes
    TruncTo(u8, u16),
    Pop(u8),
    Push(u8),
    PushStr(u8, u8),
    Reserve(u8, u16),
    ShrinkToFit(u8),
    Clear(u8),
    Remove0(u8),
    /// the next allocator request fails; the op is a try_ form
    FaultTruncBy(u8, u16),
    FaultPush(u8),
    FaultReserve(u8, u16),
    FaultShrink(u8),
}

fn op_strategy() -> impl Strategy<Value = Op> {
    let s = || 0u8..SLOTS as u8;
    prop_oneof![
        5 => (s(), -4i8..=12).prop_map(|(a, d)| Op::FromBig(a, d)),
        3 => (s(), -4i8..=12).prop_map(|(a, d)| Op::CapBig(a, d)),
        1 => (s(), 0u8..40).prop_map(|(a, n)| Op::Small(a, n)),
        6 => (s(), s()).prop_map(|(a, b)| Op::Clone(a, b)),
        3 => s().prop_map(Op::Drop),
        5 => (s(), 0u16..12, any::<bool>()).prop_map(|(a, k, t)| Op::TruncBy(a, k, t)),
        2 => (s(), 0u16..40).prop_map(|(a, k)| Op::TruncTo(a, k)),
        3 => s().prop_map(Op::Pop),
        3 => s().prop_map(Op::Push),
        2 => (s(), 0u8..30).prop_map(|(a, n)| Op::PushStr(a, n)),
        2 => (s(), 0u16..64).prop_map(|(a, n)| Op::Reserve(a, n)),
        2 => s().prop_map(Op::ShrinkToFit),
        1 => s().prop_map(Op::Clear),
        1 => s().prop_map(Op::Remove0),
        3 => (s(), 0u16..12).prop_map(|(a, k)| Op::FaultTruncBy(a, k)),
        2 => s().prop_map(Op::FaultPush),
        1 => (s(), 0u16..64).prop_map(|(a, n)| Op::FaultReserve(a, n)),
        1 => s().prop_map(Op::FaultShrink),
    ]
}

fn check(slots: &[Option<LeanString>], model: &[Option<String>], op: &Op, full: bool) {
    for i in 0..SLOTS {
        match (&slots[i], &model[i]) {
            (Some(s), Some(m)) => {
                assert_eq!(s.len(), m.len(), "slot {i} length after {op:?}");
                assert!(s.capacity() >= s.len(), "slot {i} capacity < len after {op:?}");
                let n = m.len();
                // ends and, when asked, the whole text
                assert_eq!(&s.as_bytes()[..n.min(64)], &m.as_bytes()[..n.min(64)], "slot {i} head after {op:?}");
                assert_eq!(&s.as_bytes()[n - n.min(64)..], &m.as_bytes()[n - n.min(64)..], "slot {i} tail after {op:?}");
                if full {
                    assert!(s.as_bytes() == m.as_bytes(), "slot {i} text after {op:?}");
                }
            }
            (None, None) => {}
            _ => panic!("slot {i} liveness after {op:?}"),
        }
    }
}

fn refcounts_ok(slots: &[Option<LeanString>], op: &Op) {
    for i in 0..SLOTS {
        if let Some(s) = &slots[i] {
            if let Some(rc) = s.verif_refcount() {
                let n = slots.iter().flatten().filter(|o| o.is_heap_allocated() && o.as_ptr() == s.as_ptr()).count();
                assert_eq!(rc, n, "reference count of slot {i} after {op:?}: {rc}, live handles {n}");
            }
        }
    }
}

fn run(ops: &[Op]) {
    let mut slots: Vec<Option<LeanString>> = (0..SLOTS).map(|_| None).collect();
    let mut model: Vec<Option<String>> = (0..SLOTS).map(|_| None).collect();
    let ix = |a: u8| a as usize % SLOTS;
    for op in ops {
        let live = |slots: &mut Vec<Option<LeanString>>, model: &mut Vec<Option<String>>, a: usize| {
            if slots[a].is_none() {
                slots[a] = Some(LeanString::new());
                model[a] = Some(String::new());
            }
        };
        match op {
            Op::FromBig(a, d) => {
                let t = "a".repeat((EDGE as isize + *d as isize) as usize);
                slots[ix(*a)] = Some(LeanString::from(t.as_str()));
                model[ix(*a)] = Some(t);
            }
            Op::CapBig(a, d) => {
                let mut s = LeanString::with_capacity((EDGE as isize + *d as isize) as usize);
                s.push_str("a short text, but longer than sixteen bytes");
                slots[ix(*a)] = Some(s);
                model[ix(*a)] = Some("a short text, but longer than sixteen bytes".to_string());
            }
            Op::Small(a, n) => {
                let t = "s".repeat(*n as usize);
                slots[ix(*a)] = Some(LeanString::from(t.as_str()));
                model[ix(*a)] = Some(t);
            }
            Op::Clone(a, b) => {
                live(&mut slots, &mut model, ix(*b));
                let c = slots[ix(*b)].clone();
                slots[ix(*a)] = c;
                model[ix(*a)] = model[ix(*b)].clone();
            }
            Op::Drop(a) => {
                slots[ix(*a)] = None;
                model[ix(*a)] = None;
            }
            Op::TruncBy(a, k, try_) => {
                live(&mut slots, &mut model, ix(*a));
                let n = model[ix(*a)].as_ref().unwrap().len().saturating_sub(*k as usize);
                if *try_ {
                    slots[ix(*a)].as_mut().unwrap().try_truncate(n).unwrap();
                } else {
                    slots[ix(*a)].as_mut().unwrap().truncate(n);
                }
                model[ix(*a)].as_mut().unwrap().truncate(n);
            }
            Op::TruncTo(a, k) => {
                live(&mut slots, &mut model, ix(*a));
                slots[ix(*a)].as_mut().unwrap().truncate(*k as usize);
                model[ix(*a)].as_mut().unwrap().truncate(*k as usize);
            }
            Op::Pop(a) => {
                live(&mut slots, &mut model, ix(*a));
                let x = slots[ix(*a)].as_mut().unwrap().pop();
                assert_eq!(x, model[ix(*a)].as_mut().unwrap().pop(), "pop");
            }
            Op::Push(a) => {
                live(&mut slots, &mut model, ix(*a));
                slots[ix(*a)].as_mut().unwrap().push('é');
                model[ix(*a)].as_mut().unwrap().push('é');
            }
            Op::PushStr(a, n) => {
                live(&mut slots, &mut model, ix(*a));
                let t = "p".repeat(*n as usize);
                slots[ix(*a)].as_mut().unwrap().push_str(&t);
                model[ix(*a)].as_mut().unwrap().push_str(&t);
            }
            Op::Reserve(a, n) => {
                live(&mut slots, &mut model, ix(*a));
                slots[ix(*a)].as_mut().unwrap().reserve(*n as usize);
            }
            Op::ShrinkToFit(a) => {
                live(&mut slots, &mut model, ix(*a));
                slots[ix(*a)].as_mut().unwrap().shrink_to_fit();
            }
            Op::Clear(a) => {
                live(&mut slots, &mut model, ix(*a));
                slots[ix(*a)].as_mut().unwrap().clear();
                model[ix(*a)].as_mut().unwrap().clear();
            }
            Op::Remove0(a) => {
                live(&mut slots, &mut model, ix(*a));
                if !model[ix(*a)].as_ref().unwrap().is_empty() {
                    let x = slots[ix(*a)].as_mut().unwrap().remove(0);
                    assert_eq!(x, model[ix(*a)].as_mut().unwrap().remove(0), "remove");
                }
            }
            Op::FaultTruncBy(a, k) => {
                live(&mut slots, &mut model, ix(*a));
                let n = model[ix(*a)].as_ref().unwrap().len().saturating_sub(*k as usize);
                FAIL_IN.store(0, Ordering::Relaxed);
                let r = slots[ix(*a)].as_mut().unwrap().try_truncate(n);
                FAIL_IN.store(usize::MAX, Ordering::Relaxed);
                if r.is_ok() {
                    model[ix(*a)].as_mut().unwrap().truncate(n);
                }
            }
            Op::FaultPush(a) => {
                live(&mut slots, &mut model, ix(*a));
                FAIL_IN.store(0, Ordering::Relaxed);
                let r = slots[ix(*a)].as_mut().unwrap().try_push('z');
                FAIL_IN.store(usize::MAX, Ordering::Relaxed);
                if r.is_ok() {
                    model[ix(*a)].as_mut().unwrap().push('z');
                }
            }
            Op::FaultReserve(a, n) => {
                live(&mut slots, &mut model, ix(*a));
                FAIL_IN.store(0, Ordering::Relaxed);
                let _ = slots[ix(*a)].as_mut().unwrap().try_reserve(*n as usize);
                FAIL_IN.store(usize::MAX, Ordering::Relaxed);
            }
            Op::FaultShrink(a) => {
                live(&mut slots, &mut model, ix(*a));
                FAIL_IN.store(0, Ordering::Relaxed);
                let _ = slots[ix(*a)].as_mut().unwrap().try_shrink_to_fit();
                FAIL_IN.store(usize::MAX, Ordering::Relaxed);
            }
        }
        check(&slots, &model, op, matches!(op, Op::Remove0(_) | Op::ShrinkToFit(_)));
        refcounts_ok(&slots, op);
    }
    check(&slots, &model, &Op::Drop(0), true);
}

fn parse_case(s: &str) -> Vec<Op> {
    // the Debug form printed by this program: Name(args), separated by ';'
    s.split(';')
        .filter(|t| !t.trim().is_empty())
        .map(|t| {
            let t = t.trim();
            let (name, rest) = t.split_once('(').expect("op");
            let args: Vec<&str> = rest.trim_end_matches(')').split(',').map(|x| x.trim()).filter(|x| !x.is_empty()).collect();
            let u8a = |i: usize| args[i].parse::<u8>().unwrap();
            let u16a = |i: usize| args[i].parse::<u16>().unwrap();
            match name {
                "FromBig" => Op::FromBig(u8a(0), args[1].parse().unwrap()),
                "CapBig" => Op::CapBig(u8a(0), args[1].parse().unwrap()),
                "Small" => Op::Small(u8a(0), u8a(1)),
                "Clone" => Op::Clone(u8a(0), u8a(1)),
                "Drop" => Op::Drop(u8a(0)),
                "TruncBy" => Op::TruncBy(u8a(0), u16a(1), args[2] == "true"),
                "TruncTo" => Op::TruncTo(u8a(0), u16a(1)),
                "Pop" => Op::Pop(u8a(0)),
                "Push" => Op::Push(u8a(0)),
                "PushStr" => Op::PushStr(u8a(0), u8a(1)),
                "Reserve" => Op::Reserve(u8a(0), u16a(1)),
                "ShrinkToFit" => Op::ShrinkToFit(u8a(0)),
                "Clear" => Op::Clear(u8a(0)),
                "Remove0" => Op::Remove0(u8a(0)),
                "FaultTruncBy" => Op::FaultTruncBy(u8a(0), u16a(1)),
                "FaultPush" => Op::FaultPush(u8a(0)),
                "FaultReserve" => Op::FaultReserve(u8a(0), u16a(1)),
                "FaultShrink" => Op::FaultShrink(u8a(0)),
                other => panic!("unknown op {other}"),
            }
        })
        .collect()
}

fn show(ops: &[Op]) -> String {
    ops.iter().map(|o| format!("{o:?}")).collect::<Vec<_>>().join(";")
}

fn main() {
    install(&HOOKS);
    let args: Vec<String> = std::env::args().collect();
    if args.get(1).map(|s| s.as_str()) == Some("--case") {
        let ops = parse_case(&args[2]);
        println!("CASE 0 {}", show(&ops));
        run(&ops);
        println!("DONE 1");
        return;
    }
    let seed: u64 = args.get(1).and_then(|s| s.parse().ok()).unwrap_or(0);
    let cases: usize = args.get(2).and_then(|s| s.parse().ok()).unwrap_or(8);
    // fixed histories first: the situations that reach every 32-bit-only branch
    let fixed: Vec<Vec<Op>> = vec![
        vec![Op::CapBig(0, 8), Op::Push(0), Op::Drop(0)],
        vec![Op::FromBig(0, 8), Op::TruncTo(0, 20), Op::Push(0), Op::Drop(0)],
        vec![Op::FromBig(0, 8), Op::Clone(1, 0), Op::TruncBy(1, 3, false), Op::Pop(0), Op::Drop(0), Op::Push(1)],
        vec![Op::FromBig(0, 8), Op::Clone(1, 0), Op::FaultTruncBy(1, 3), Op::Drop(1), Op::Pop(0)],
        vec![Op::FromBig(0, -1), Op::Push(0), Op::Push(0), Op::TruncBy(0, 6, true), Op::ShrinkToFit(0)],
        vec![Op::FromBig(0, 2), Op::TruncBy(0, 4, false), Op::ShrinkToFit(0), Op::PushStr(0, 9), Op::Remove0(0)],
    ];
    let mut n = 0;
    for ops in &fixed {
        println!("CASE {n} {}", show(ops));
        run(ops);
        n += 1;
    }
    let mut sb = [0u8; 32];
    sb[..8].copy_from_slice(&seed.to_le_bytes());
    sb[8] = 0x32;
    let mut runner = TestRunner::new_with_rng(Config::default(), TestRng::from_seed(RngAlgorithm::ChaCha, &sb));
    // every generated history starts from a big string (or a big capacity) that is usually shared
    let strat = (prop_oneof![(-4i8..=12).prop_map(|d| Op::FromBig(0, d)), (-4i8..=12).prop_map(|d| Op::CapBig(0, d))], any::<bool>(), vec(op_strategy(), 2..=6)).prop_map(
        |(first, share, rest)| {
            let mut ops = vec![first];
            if share {
                ops.push(Op::Clone(1, 0));
            }
            ops.extend(rest);
            ops
        },
    );
    for _ in 0..cases {
        let ops = strat.new_tree(&mut runner).unwrap().current();
        println!("CASE {n} {}", show(&ops));
        run(&ops);
        n += 1;
    }
    println!("DONE {n}");
}
